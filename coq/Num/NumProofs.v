(* C05: the impl-model of the operator macros (NumImpl) meets the specification (NumSpec) for ALL operand
   values.  No sampling: every lemma is proved by case analysis on kinds and arithmetic on ranges. *)
From MS Require Import Num.NumImpl Num.NumSpec.

(* ---------------------------------------------------------------- ranges, casts *)
Lemma in_range_iff : forall t z, in_range t z = true <-> imin t <= z <= imax t.
Proof. intros t z. unfold in_range. rewrite andb_true_iff, !Z.leb_le. tauto. Qed.

Lemma in_range_false_iff : forall t z, in_range t z = false <-> ~ (imin t <= z <= imax t).
Proof. intros t z. rewrite <- in_range_iff. destruct (in_range t z); intuition congruence. Qed.

Lemma wrap_id : forall t z, in_range t z = true -> wrap t z = z.
Proof.
  intros t z H. apply in_range_iff in H. destruct t; cbn [wrap imin imax] in *;
  Z.to_euclidean_division_equations; lia.
Qed.

Lemma wrap_in_range : forall t z, in_range t (wrap t z) = true.
Proof.
  intros t z. apply in_range_iff. destruct t; cbn [wrap imin imax];
  Z.to_euclidean_division_equations; lia.
Qed.

(* widening casts keep the value: u8 -> i32 -> i128 *)
Definition sub_ity (s t : ity) : Prop := imin t <= imin s /\ imax s <= imax t.

Lemma in_range_widen : forall s t z, sub_ity s t -> in_range s z = true -> in_range t z = true.
Proof. intros s t z [H1 H2] H. apply in_range_iff in H. apply in_range_iff. lia. Qed.

Lemma as_widen : forall s t z, sub_ity s t -> in_range s z = true -> as_ t z = z.
Proof. intros. unfold as_. apply wrap_id. eapply in_range_widen; eauto. Qed.

Lemma sub_U8_I32 : sub_ity U8 I32.   Proof. unfold sub_ity; cbn; lia. Qed.
Lemma sub_U8_I128 : sub_ity U8 I128. Proof. unfold sub_ity; cbn; lia. Qed.
Lemma sub_I32_I128 : sub_ity I32 I128. Proof. unfold sub_ity; cbn; lia. Qed.
Lemma sub_refl : forall t, sub_ity t t. Proof. unfold sub_ity; intros; lia. Qed.

Lemma as_u32_byte : forall z, in_range U8 z = true -> as_u32 z = z.
Proof. intros z H. apply in_range_iff in H. cbn in H. unfold as_u32. apply Z.mod_small. lia. Qed.

(* ---------------------------------------------------------------- one integer arm: `x $symbol y` at type t *)
(* what the specification demands of an integer arm: None = failure demanded *)
Definition int_spec (t : ity) (o : aop) (x y : Z) : option Z :=
  if is_divlike o && (y =? 0) then None
  else if in_range t (exact_Z o x y) then Some (exact_Z o x y) else None.

Definition int_meets (s : option Z) (r : res Z) : Prop :=
  match s with Some z => r = Ok z | None => is_failure r end.

Lemma min_by_m1_spec : forall t x y,
  in_range t x = true -> in_range t y = true -> y <> 0 ->
  min_by_m1 t x y = negb (in_range t (Z.quot x y)).
Proof.
  intros t x y Hx Hy Hy0. apply in_range_iff in Hx. apply in_range_iff in Hy.
  unfold min_by_m1. symmetry.
  destruct t; cbn [signed andb imin imax] in *.
  - destruct (Z.eqb_spec x (-2147483648)) as [->|Hn], (Z.eqb_spec y (-1)) as [->|Hm]; cbn [andb];
      [ apply negb_true_iff, in_range_false_iff | apply negb_false_iff, in_range_iff ..];
      cbn [imin imax]; Z.to_euclidean_division_equations; nia.
  - destruct (Z.eqb_spec x (-170141183460469231731687303715884105728)) as [->|Hn], (Z.eqb_spec y (-1)) as [->|Hm]; cbn [andb];
      [ apply negb_true_iff, in_range_false_iff | apply negb_false_iff, in_range_iff ..];
      cbn [imin imax]; Z.to_euclidean_division_equations; nia.
  - apply negb_false_iff, in_range_iff; cbn [imin imax]; Z.to_euclidean_division_equations; nia.
Qed.

Lemma rem_in_range : forall t x y,
  in_range t x = true -> in_range t y = true -> y <> 0 -> in_range t (Z.rem x y) = true.
Proof.
  intros t x y Hx Hy Hy0. apply in_range_iff in Hx. apply in_range_iff in Hy. apply in_range_iff.
  destruct t; cbn [imin imax] in *; Z.to_euclidean_division_equations; nia.
Qed.

(* the fixed code: checked_add / checked_sub / checked_mul + expect, plain `/`, wrapping_rem *)
Lemma fixed_int_ok : forall t o x y,
  in_range t x = true -> in_range t y = true ->
  int_meets (int_spec t o x y) (fixed_int t o x y).
Proof.
  intros t o x y Hx Hy. unfold int_spec, fixed_int.
  destruct o; cbn [is_divlike andb exact_Z]; unfold checked, expect, rust_div, wrapping_rem.
  1-3: match goal with |- context [in_range ?tt ?e] => destruct (in_range tt e) end; cbn; auto.
  - destruct (Z.eqb_spec y 0) as [->|Hy0]; cbn; auto.
    rewrite (min_by_m1_spec t x y Hx Hy Hy0).
    destruct (in_range t (Z.quot x y)); cbn; auto.
  - destruct (Z.eqb_spec y 0) as [->|Hy0]; cbn; auto.
    rewrite (rem_in_range t x y Hx Hy Hy0). cbn. reflexivity.
Qed.

(* the original code in a debug build (overflow checks on): only `MIN % -1` is wrong (it panics, the exact
   remainder is 0) *)
Lemma trap_int_ok : forall t o x y,
  in_range t x = true -> in_range t y = true ->
  ~ (o = Rem /\ min_by_m1 t x y = true) ->
  int_meets (int_spec t o x y) (orig_int Trap t o x y).
Proof.
  intros t o x y Hx Hy Hex. unfold int_spec, orig_int.
  destruct o; cbn [is_divlike andb exact_Z]; unfold plain, rust_div, rust_rem.
  1-3: match goal with |- context [in_range ?tt ?e] => destruct (in_range tt e) end; cbn; auto.
  - destruct (Z.eqb_spec y 0) as [->|Hy0]; cbn; auto.
    rewrite (min_by_m1_spec t x y Hx Hy Hy0).
    destruct (in_range t (Z.quot x y)); cbn; auto.
  - destruct (Z.eqb_spec y 0) as [->|Hy0]; cbn; auto.
    rewrite (rem_in_range t x y Hx Hy Hy0).
    destruct (min_by_m1 t x y); [exfalso; apply Hex; auto | reflexivity].
Qed.

(* the original code in a release build: additionally every overflowing + - * wraps around *)
Lemma wrap_int_ok : forall t o x y,
  in_range t x = true -> in_range t y = true ->
  ~ (o = Rem /\ min_by_m1 t x y = true) ->
  (is_divlike o = true \/ in_range t (exact_Z o x y) = true) ->
  int_meets (int_spec t o x y) (orig_int Wrap t o x y).
Proof.
  intros t o x y Hx Hy Hex Hov. unfold int_spec, orig_int.
  destruct o; cbn [is_divlike andb exact_Z] in *; unfold plain, rust_div, rust_rem.
  1-3: destruct Hov as [Hov|Hov]; [discriminate | rewrite Hov; reflexivity].
  - destruct (Z.eqb_spec y 0) as [->|Hy0]; cbn; auto.
    rewrite (min_by_m1_spec t x y Hx Hy Hy0).
    destruct (in_range t (Z.quot x y)); cbn; auto.
  - destruct (Z.eqb_spec y 0) as [->|Hy0]; cbn; auto.
    rewrite (rem_in_range t x y Hx Hy Hy0).
    destruct (min_by_m1 t x y); [exfalso; apply Hex; auto | reflexivity].
Qed.

(* from one integer arm to the operator: the arm's result is tagged with the promoted kind, after the
   zero guard [g] of div.rs / rem.rs (which may only fire on a zero divisor) *)
Lemma int_arm_meets : forall k o x y (g : bool) r,
  k <> KFloat -> (g = true -> y = 0) ->
  int_meets (int_spec (ity_of k) o x y) r ->
  meets (if is_divlike o && (y =? 0) then Undefined else repr k (exact_Z o x y))
        (if is_divlike o && g then Err else lift (mk k) r).
Proof.
  intros k o x y g r Hk Hg H. unfold int_spec, repr in *.
  destruct (is_divlike o); cbn [andb] in *.
  - destruct g.
    + rewrite (Hg eq_refl). cbn. exact I.
    + destruct (y =? 0).
      * destruct r; cbn in *; auto.
      * destruct (in_range (ity_of k) (exact_Z o x y)); cbn in *; [subst; reflexivity | destruct r; cbn in *; auto].
  - destruct (in_range (ity_of k) (exact_Z o x y)); cbn in *; [subst; reflexivity | destruct r; cbn in *; auto].
Qed.

Ltac not_num H := exfalso; apply H; reflexivity.

Ltac widen :=
  repeat match goal with
  | H : in_range U8 ?z = true |- context [as_ I32 ?z] => rewrite (as_widen U8 I32 z sub_U8_I32 H)
  | H : in_range U8 ?z = true |- context [as_ I128 ?z] => rewrite (as_widen U8 I128 z sub_U8_I128 H)
  | H : in_range I32 ?z = true |- context [as_ I128 ?z] => rewrite (as_widen I32 I128 z sub_I32_I128 H)
  | H : in_range I32 ?z = true |- context [as_ I32 ?z] => rewrite (as_widen I32 I32 z (sub_refl _) H)
  | H : in_range I128 ?z = true |- context [as_ I128 ?z] => rewrite (as_widen I128 I128 z (sub_refl _) H)
  | H : in_range U8 ?z = true |- context [as_u32 ?z] => rewrite (as_u32_byte z H)
  end.

Lemma eqb0 : forall z, (z =? 0) = true -> z = 0.
Proof. intros z H. apply Z.eqb_eq in H. exact H. Qed.

(* + - * / % of the fixed code, every pair of numeric kinds, all values *)
Theorem arith_fixed : forall o a b, wf a -> wf b -> is_num a -> is_num b ->
  meets (spec_arith o a b) (arith Fixed o a b).
Proof.
  intros o a b Ha Hb Na Nb.
  destruct a as [x|x|x|x|x], b as [y|y|y|y|y]; try not_num Na; try not_num Nb;
  unfold spec_arith, arith, apply_math;
  cbn [kind_of is_zero zero_guard promote math_no_f64 math_f64 option_map Zval Fval ity_of int_op wf] in *;
  widen.
  all: try (match goal with |- context [F_is_zero ?f] => destruct (is_divlike o && F_is_zero f) end; cbn; auto; fail).
  all: try (match goal with |- context [flt_op] => destruct (is_divlike o && (y =? 0)) end; cbn; auto; fail).
  all: match goal with
       | |- meets _ (if _ && ?g then Err else lift Int ?r) => apply (int_arm_meets KInt o _ _ g r)
       | |- meets _ (if _ && ?g then Err else lift Big ?r) => apply (int_arm_meets KBig o _ _ g r)
       | |- meets _ (if _ && ?g then Err else lift Byte ?r) => apply (int_arm_meets KByte o _ _ g r)
       end; try discriminate; try apply eqb0; cbn [ity_of]; apply fixed_int_ok; auto;
       eauto using in_range_widen, sub_U8_I32, sub_U8_I128, sub_I32_I128.
Qed.

(* ---------------------------------------------------------------- bitwise operators stay in range *)
Lemma signed_range_shiftr : forall n x, 0 <= n ->
  (- 2 ^ n <= x <= 2 ^ n - 1) <-> (Z.shiftr x n = 0 \/ Z.shiftr x n = -1).
Proof.
  intros n x Hn. rewrite Z.shiftr_div_pow2 by exact Hn.
  assert (Hp : 0 < 2 ^ n) by (apply Z.pow_pos_nonneg; lia).
  split; intros H.
  - destruct (Z_lt_le_dec x 0).
    + right. symmetry. apply (Z.div_unique x (2 ^ n) (-1) (x + 2 ^ n)); lia.
    + left. apply Z.div_small. lia.
  - pose proof (Z.div_mod x (2 ^ n) ltac:(lia)) as E.
    pose proof (Z.mod_pos_bound x (2 ^ n) Hp) as B.
    destruct H as [H|H]; rewrite H in E; lia.
Qed.

Lemma unsigned_range_shiftr : forall n x, 0 <= n ->
  (0 <= x <= 2 ^ n - 1) <-> Z.shiftr x n = 0.
Proof.
  intros n x Hn. rewrite Z.shiftr_div_pow2 by exact Hn.
  assert (Hp : 0 < 2 ^ n) by (apply Z.pow_pos_nonneg; lia).
  split; intros H.
  - apply Z.div_small. lia.
  - pose proof (Z.div_mod x (2 ^ n) ltac:(lia)) as E.
    pose proof (Z.mod_pos_bound x (2 ^ n) Hp) as B.
    rewrite H in E. lia.
Qed.

Lemma shiftr_bit_op : forall o x y n, 0 <= n ->
  Z.shiftr (bit_op o x y) n = bit_op o (Z.shiftr x n) (Z.shiftr y n).
Proof.
  intros o x y n Hn. destruct o; cbn [bit_op].
  - apply Z.shiftr_land.
  - apply Z.shiftr_lor.
  - apply Z.shiftr_lxor.
Qed.

Lemma bit_op_signs : forall o a b, (a = 0 \/ a = -1) -> (b = 0 \/ b = -1) ->
  bit_op o a b = 0 \/ bit_op o a b = -1.
Proof. intros o a b [->| ->] [->| ->]; destruct o; cbn; auto. Qed.

Lemma bit_in_range : forall t o x y,
  in_range t x = true -> in_range t y = true -> in_range t (bit_op o x y) = true.
Proof.
  intros t o x y Hx Hy. apply in_range_iff in Hx. apply in_range_iff in Hy. apply in_range_iff.
  destruct t; cbn [imin imax] in *.
  - change (-2147483648) with (- 2 ^ 31) in *. change 2147483647 with (2 ^ 31 - 1) in *.
    apply signed_range_shiftr in Hx; [|lia]. apply signed_range_shiftr in Hy; [|lia].
    apply signed_range_shiftr; [lia|]. rewrite shiftr_bit_op by lia. apply bit_op_signs; assumption.
  - change (-170141183460469231731687303715884105728) with (- 2 ^ 127) in *.
    change 170141183460469231731687303715884105727 with (2 ^ 127 - 1) in *.
    apply signed_range_shiftr in Hx; [|lia]. apply signed_range_shiftr in Hy; [|lia].
    apply signed_range_shiftr; [lia|]. rewrite shiftr_bit_op by lia. apply bit_op_signs; assumption.
  - change 255 with (2 ^ 8 - 1) in *.
    apply unsigned_range_shiftr in Hx; [|lia]. apply unsigned_range_shiftr in Hy; [|lia].
    apply unsigned_range_shiftr; [lia|]. rewrite shiftr_bit_op by lia. rewrite Hx, Hy. destruct o; reflexivity.
Qed.

(* & | xor, every pair of numeric kinds, all values (no version dependence) *)
Theorem bit_exact : forall o a b, wf a -> wf b -> is_num a -> is_num b ->
  meets (spec_bit o a b) (bit o a b).
Proof.
  intros o a b Ha Hb Na Nb.
  destruct a as [x|x|x|x|x], b as [y|y|y|y|y]; try not_num Na; try not_num Nb;
  unfold spec_bit, bit, repr;
  cbn [kind_of promote math_no_f64 Zval ity_of wf lift mk meets is_failure] in *;
  widen; auto.
  all: rewrite bit_in_range; [reflexivity | ..]; eauto using in_range_widen, sub_U8_I32, sub_U8_I128, sub_I32_I128.
Qed.

(* ---------------------------------------------------------------- shifts *)
Lemma width_small : forall t, 0 < width t <= 128.
Proof. destruct t; cbn; lia. Qed.

(* the fixed-width pattern differs from the value by a multiple of 2^width *)
Lemma wrap_congr : forall t z, exists k, wrap t z = z + k * 2 ^ width t.
Proof.
  intros t z. destruct t; cbn [wrap width].
  - exists (- ((z + 2147483648) / 4294967296)). change (2 ^ 32) with 4294967296.
    pose proof (Z.div_mod (z + 2147483648) 4294967296 ltac:(lia)). lia.
  - exists (- ((z + 170141183460469231731687303715884105728) / 340282366920938463463374607431768211456)).
    change (2 ^ 128) with 340282366920938463463374607431768211456.
    pose proof (Z.div_mod (z + 170141183460469231731687303715884105728) 340282366920938463463374607431768211456 ltac:(lia)). lia.
  - exists (- (z / 256)). change (2 ^ 8) with 256.
    pose proof (Z.div_mod z 256 ltac:(lia)). lia.
Qed.

(* ExactShl: shifting the truncated result back restores the operand exactly when no bit was lost,
   i.e. when the exact value x * 2^n is representable *)
Lemma shl_back : forall t x n, 0 <= n < width t ->
  (Z.shiftr (wrap t (x * 2 ^ n)) n =? x) = in_range t (x * 2 ^ n).
Proof.
  intros t x n Hn.
  assert (Hp : 0 < 2 ^ n) by (apply Z.pow_pos_nonneg; lia).
  destruct (in_range t (x * 2 ^ n)) eqn:R.
  - rewrite (wrap_id _ _ R). apply Z.eqb_eq.
    rewrite Z.shiftr_div_pow2 by lia. apply Z.div_mul. lia.
  - apply Z.eqb_neq. intros E.
    destruct (wrap_congr t (x * 2 ^ n)) as [k Hk].
    assert (Hw : 2 ^ width t = 2 ^ (width t - n) * 2 ^ n)
      by (rewrite <- Z.pow_add_r by lia; f_equal; lia).
    assert (Hq : 0 < 2 ^ (width t - n)) by (apply Z.pow_pos_nonneg; lia).
    rewrite Z.shiftr_div_pow2 in E by lia.
    rewrite Hk, Hw in E.
    replace (x * 2 ^ n + k * (2 ^ (width t - n) * 2 ^ n)) with ((x + k * 2 ^ (width t - n)) * 2 ^ n) in E by ring.
    rewrite Z.div_mul in E by lia.
    assert (k = 0) by nia. subst k.
    rewrite Z.mul_0_l, Z.add_0_r in Hk.
    pose proof (wrap_in_range t (x * 2 ^ n)) as W. rewrite Hk in W. congruence.
Qed.

(* what the specification demands of one shift arm at type t *)
Definition sh_spec (t : ity) (inj : Z -> value) (o : sop) (x n : Z) : sres :=
  if (0 <=? n) && (n <? width t)
  then match o with
       | Shl => if in_range t (x * 2 ^ n) then Exact (inj (x * 2 ^ n)) else Undefined
       | Shr => Exact (inj (Z.shiftr x n))
       end
  else Undefined.

(* the exact shift function meets it; the original one whenever no bit is lost *)
Definition sh_good (f : ity -> sop -> Z -> Z -> option Z) (t : ity) (o : sop) (x : Z) : Prop :=
  forall n, 0 <= n < width t ->
    f t o x n = match o with
                | Shl => if in_range t (x * 2 ^ n) then Some (x * 2 ^ n) else None
                | Shr => Some (Z.shiftr x n)
                end.
Definition sh_range (f : ity -> sop -> Z -> Z -> option Z) (t : ity) (o : sop) (x : Z) : Prop :=
  forall n, width t <= n -> f t o x n = None.

Lemma exact_sh_good : forall t o x, sh_good exact_sh t o x.
Proof.
  intros t o x n Hn. unfold exact_sh, checked_sh.
  destruct (Z.ltb_spec n (width t)); [|lia].
  destruct o; [|reflexivity].
  rewrite (shl_back t x n Hn). destruct (in_range t (x * 2 ^ n)) eqn:R; [|reflexivity].
  rewrite (wrap_id _ _ R). reflexivity.
Qed.

Lemma exact_sh_range : forall t o x, sh_range exact_sh t o x.
Proof.
  intros t o x n Hn. unfold exact_sh, checked_sh.
  destruct (Z.ltb_spec n (width t)); [lia|]. destruct o; reflexivity.
Qed.

Lemma checked_sh_good : forall t o x,
  (o = Shl -> forall n, 0 <= n < width t -> in_range t (x * 2 ^ n) = true) ->
  sh_good checked_sh t o x.
Proof.
  intros t o x H n Hn. unfold checked_sh.
  destruct (Z.ltb_spec n (width t)); [|lia].
  destruct o; [|reflexivity].
  rewrite (H eq_refl n Hn). rewrite (wrap_id _ _ (H eq_refl n Hn)). reflexivity.
Qed.

Lemma checked_sh_range : forall t o x, sh_range checked_sh t o x.
Proof.
  intros t o x n Hn. unfold checked_sh. destruct (Z.ltb_spec n (width t)); [lia|reflexivity].
Qed.

Lemma sh_fn_meets : forall f t inj o x n, sh_good f t o x -> sh_range f t o x -> 0 <= n ->
  meets (sh_spec t inj o x n) (match f t o x n with Some z => Ok (inj z) | None => Err end).
Proof.
  intros f t inj o x n G R Hn. unfold sh_spec.
  destruct (Z.leb_spec 0 n); [|lia]. cbn [andb].
  destruct (Z.ltb_spec n (width t)).
  - rewrite (G n ltac:(lia)). destruct o; [|reflexivity].
    destruct (in_range t (x * 2 ^ n)); cbn; auto.
  - rewrite (R n ltac:(lia)). exact I.
Qed.

Lemma shift_arm_try : forall f t inj o x y, sh_good f t o x -> sh_range f t o x ->
  meets (sh_spec t inj o x y) (shift_arm f t inj o x (try_u32 y)).
Proof.
  intros f t inj o x y G R. pose proof (width_small t) as W. unfold shift_arm, try_u32.
  destruct (Z.leb_spec 0 y); cbn [andb].
  - destruct (Z.leb_spec y 4294967295); cbn [andb].
    + apply sh_fn_meets; assumption.
    + unfold sh_spec. destruct (Z.ltb_spec y (width t)); [lia|]. rewrite andb_false_r. exact I.
  - unfold sh_spec. destruct (Z.leb_spec 0 y); [lia|]. exact I.
Qed.

Lemma shift_arm_byte : forall f t inj o x y, sh_good f t o x -> sh_range f t o x -> 0 <= y ->
  meets (sh_spec t inj o x y) (shift_arm f t inj o x (Some y)).
Proof. intros f t inj o x y G R Hy. unfold shift_arm. apply sh_fn_meets; assumption. Qed.

(* << >> with a shift function that is good on the (promoted) left operand: every pair of numeric kinds,
   all values and shift amounts *)
Lemma shift_meets : forall v o a b, wf a -> wf b -> is_num a -> is_num b ->
  (forall t, sh_good (sh_fn v) t o (Zval a)) -> (forall t, sh_range (sh_fn v) t o (Zval a)) ->
  meets (spec_shift o a b) (shift_op v o a b).
Proof.
  intros v o a b Ha Hb Na Nb G R.
  destruct a as [x|x|x|x|x], b as [y|y|y|y|y]; try not_num Na; try not_num Nb;
  unfold spec_shift, shift_op, repr;
  cbn [kind_of promote Zval ity_of wf mk] in *; widen; try exact I.
  all: try (apply (shift_arm_try (sh_fn v) I32 Int) || apply (shift_arm_try (sh_fn v) I128 Big)); auto.
  all: (apply (shift_arm_byte (sh_fn v) I32 Int) || apply (shift_arm_byte (sh_fn v) I128 Big) || apply (shift_arm_byte (sh_fn v) U8 Byte)); auto;
       apply in_range_iff in Hb; cbn in Hb; lia.
Qed.

Theorem shift_exact : forall o a b, wf a -> wf b -> is_num a -> is_num b ->
  meets (spec_shift o a b) (shift_op Fixed o a b).
Proof.
  intros o a b Ha Hb Na Nb. apply shift_meets; auto; intros t.
  - apply exact_sh_good.
  - apply exact_sh_range.
Qed.

(* ---------------------------------------------------------------- ordering and equality *)
Theorem cmp_exact : forall o a b, wf a -> wf b -> is_num a -> is_num b ->
  meets (spec_cmp o a b) (ord_op o a b).
Proof.
  intros o a b Ha Hb Na Nb.
  destruct a as [x|x|x|x|x], b as [y|y|y|y|y]; try not_num Na; try not_num Nb;
  unfold spec_cmp, ord_op; cbn [kind_of has_float Zval Fval wf meets] in *; widen; reflexivity.
Qed.

Theorem equals_exact : forall a b, wf a -> wf b -> is_num a -> is_num b ->
  match spec_eq a b with Some r => equals a b = Ok r | None => False end.
Proof.
  intros a b Ha Hb Na Nb.
  destruct a as [x|x|x|x|x], b as [y|y|y|y|y]; try not_num Na; try not_num Nb;
  unfold spec_eq, equals; cbn [kind_of has_float Zval Fval wf] in *; widen; reflexivity.
Qed.

(* ---------------------------------------------------------------- unary minus, not *)
Theorem neg_fixed : forall a, wf a -> meets (spec_neg a) (negate Fixed a).
Proof.
  intros a Ha. destruct a as [x|x|x|x|x]; unfold spec_neg, negate, neg_int, checked, repr;
  cbn [ity_of mk meets is_failure lift expect]; auto.
  - destruct (in_range I32 (- x)); cbn; auto.
  - destruct (in_range I128 (- x)); cbn; auto.
Qed.

Theorem not_exact : forall a, meets (spec_not a) (not_ a).
Proof. intros a. destruct a; cbn; auto. Qed.

(* ---------------------------------------------------------------- all binary operators, fixed code *)
Theorem binop_fixed : forall op a b, wf a -> wf b -> is_num a -> is_num b ->
  meets (spec_binop op a b) (binop_eval Fixed op a b).
Proof.
  intros op a b Ha Hb Na Nb. destruct op as [o|o|o|o|o]; cbn [spec_binop binop_eval].
  - apply arith_fixed; assumption.
  - apply bit_exact; assumption.
  - apply shift_exact; assumption.
  - apply cmp_exact; assumption.
  - pose proof (equals_exact a b Ha Hb Na Nb) as H.
    destruct (spec_eq a b); [|contradiction]. rewrite H. destruct o; reflexivity.
Qed.

(* the result kind is the one of the promotion table (Bool for comparisons) *)
Theorem binop_kind : forall op a b ka kb v,
  kind_of a = Some ka -> kind_of b = Some kb -> spec_binop op a b = Exact v ->
  rkind_of v = result_kind op ka kb.
Proof.
  intros op a b ka kb v Ka Kb H.
  destruct op as [o|o|o|o|o]; cbn [spec_binop result_kind] in *.
  - unfold spec_arith in H. rewrite Ka, Kb in H.
    destruct (is_divlike o && is_zero b); [discriminate|].
    destruct (promote ka kb); unfold repr in H; cbn [ity_of mk] in H;
    try (match type of H with context [in_range ?t ?e] => destruct (in_range t e) end);
    inversion H; reflexivity.
  - unfold spec_bit in H. rewrite Ka, Kb in H.
    destruct (promote ka kb); unfold repr in H; cbn [ity_of mk] in H;
    try (match type of H with context [in_range ?t ?e] => destruct (in_range t e) end);
    inversion H; reflexivity.
  - unfold spec_shift in H. rewrite Ka, Kb in H.
    destruct (promote ka kb); cbn [ity_of mk] in H;
    try (match type of H with context [if ?c then _ else _] => destruct c end);
    try discriminate; destruct o; unfold repr in H; cbn [ity_of mk] in H;
    try (match type of H with context [in_range ?t ?e] => destruct (in_range t e) end);
    inversion H; reflexivity.
  - unfold spec_cmp in H. rewrite Ka, Kb in H. inversion H. reflexivity.
  - destruct (spec_eq a b); destruct o; inversion H; reflexivity.
Qed.

Theorem neg_kind : forall a v, spec_neg a = Exact v -> Some (rkind_of v) = option_map RNum (kind_of a).
Proof.
  intros a v H. destruct a; unfold spec_neg, repr in H; cbn [ity_of mk] in H;
  try (match type of H with context [in_range ?t ?e] => destruct (in_range t e) end);
  inversion H; reflexivity.
Qed.

(* ================================================================ the ORIGINAL code (before the fix)
   What the unfixed tree does, and exactly where it violates the specification (reproduced on the real
   binaries; repaired by the three fixes/num-*.diff, one per class):
     K1 float_by_byte_zero : `float / byte 0`, `float % byte 0` yield inf / NaN (zero guard misses Byte(0))
     K2 rem_min_by_m1      : `MIN % -1` panics although the exact remainder 0 is representable
     K3 overflows          : in a release build an overflowing + - * (and unary minus of MIN) wraps around
     K4 shl_loses_bits     : `x << n` with an admissible n whose exact value x * 2^n does not fit the result
                             kind yields the truncated bit pattern (checked_shl only checks n); repaired by
                             fixes/num-shl-lost-bits.diff *)
Definition float_by_byte_zero (op : binop) (a b : value) : Prop :=
  exists o f, op = Arith o /\ is_divlike o = true /\ a = Flt f /\ b = Byte 0.

Definition rem_min_by_m1 (op : binop) (a b : value) : Prop :=
  op = Arith Rem /\
  match kind_of a, kind_of b with
  | Some ka, Some kb => promote ka kb <> KFloat /\
                        min_by_m1 (ity_of (promote ka kb)) (Zval a) (Zval b) = true
  | _, _ => False
  end.

Definition overflows (op : binop) (a b : value) : Prop :=
  exists o, op = Arith o /\ is_divlike o = false /\
  match kind_of a, kind_of b with
  | Some ka, Some kb => promote ka kb <> KFloat /\
                        in_range (ity_of (promote ka kb)) (exact_Z o (Zval a) (Zval b)) = false
  | _, _ => False
  end.

Definition shl_loses_bits (op : binop) (a b : value) : Prop :=
  op = Shift Shl /\
  match kind_of a, kind_of b with
  | Some ka, Some kb => promote ka kb <> KFloat /\
                        0 <= Zval b < width (ity_of (promote ka kb)) /\
                        in_range (ity_of (promote ka kb)) (Zval a * 2 ^ Zval b) = false
  | _, _ => False
  end.

Lemma orig_int_ok : forall m t o x y,
  in_range t x = true -> in_range t y = true ->
  ~ (o = Rem /\ min_by_m1 t x y = true) ->
  (m = Wrap -> ~ (is_divlike o = false /\ in_range t (exact_Z o x y) = false)) ->
  int_meets (int_spec t o x y) (orig_int m t o x y).
Proof.
  intros m t o x y Hx Hy Hrem Hov. destruct m.
  - apply trap_int_ok; assumption.
  - apply wrap_int_ok; try assumption.
    destruct (is_divlike o); [left; reflexivity|].
    destruct (in_range t (exact_Z o x y)) eqn:E; [right; reflexivity|].
    exfalso. apply (Hov eq_refl). split; reflexivity.
Qed.

Theorem arith_orig : forall m o a b, wf a -> wf b -> is_num a -> is_num b ->
  ~ float_by_byte_zero (Arith o) a b ->
  ~ rem_min_by_m1 (Arith o) a b ->
  (m = Wrap -> ~ overflows (Arith o) a b) ->
  meets (spec_arith o a b) (arith (Orig m) o a b).
Proof.
  intros m o a b Ha Hb Na Nb Hbz Hrem Hov.
  destruct a as [x|x|x|x|x], b as [y|y|y|y|y]; try not_num Na; try not_num Nb;
  unfold spec_arith, arith, apply_math;
  cbn [kind_of is_zero zero_guard promote math_no_f64 math_f64 option_map Zval Fval ity_of int_op wf] in *;
  widen.
  (* float arms with a float / int / bigint divisor: the guard is the specification's zero test *)
  all: try (match goal with |- context [F_is_zero ?f] => destruct (is_divlike o && F_is_zero f) end; cbn; auto; fail).
  all: try (match goal with |- meets _ (if _ && (_ =? 0) then _ else _) => destruct (is_divlike o && (y =? 0)) end; cbn; auto; fail).
  (* float by byte: no guard; the excluded class K1 is exactly the zero divisor *)
  all: try (match goal with |- context [flt_op] => idtac end;
            rewrite andb_false_r; destruct (is_divlike o) eqn:Ed; cbn [andb]; [|reflexivity];
            destruct (Z.eqb_spec y 0) as [->|]; [|reflexivity];
            exfalso; apply Hbz; exists o, x; auto; fail).
  (* integer arms *)
  all: match goal with
       | |- meets _ (if _ && ?g then Err else lift Int ?r) => apply (int_arm_meets KInt o _ _ g r)
       | |- meets _ (if _ && ?g then Err else lift Big ?r) => apply (int_arm_meets KBig o _ _ g r)
       | |- meets _ (if _ && ?g then Err else lift Byte ?r) => apply (int_arm_meets KByte o _ _ g r)
       end; try discriminate; try apply eqb0; cbn [ity_of].
  all: apply orig_int_ok; auto; eauto using in_range_widen, sub_U8_I32, sub_U8_I128, sub_I32_I128.
  all: try (intros [-> Hm]; apply Hrem; unfold rem_min_by_m1; cbn; split; [reflexivity | split; [discriminate | exact Hm]]).
  all: intros -> [Hd Hr]; apply (Hov eq_refl); exists o; cbn; split; [reflexivity | split; [exact Hd | split; [discriminate | exact Hr]]].
Qed.

(* one arm of the original `<<` / `>>` (checked_shl / checked_shr): right unless a bit is lost *)
Lemma shift_arm_orig_try : forall t inj o x y,
  ~ (o = Shl /\ 0 <= y < width t /\ in_range t (x * 2 ^ y) = false) ->
  meets (sh_spec t inj o x y) (shift_arm checked_sh t inj o x (try_u32 y)).
Proof.
  intros t inj o x y H. pose proof (width_small t) as W.
  unfold shift_arm, try_u32, sh_spec, checked_sh.
  destruct (Z.leb_spec 0 y); cbn [andb]; [|exact I].
  destruct (Z.leb_spec y 4294967295); cbn [andb].
  - destruct (Z.ltb_spec y (width t)); [|exact I].
    destruct o; [|reflexivity].
    destruct (in_range t (x * 2 ^ y)) eqn:R.
    + rewrite (wrap_id _ _ R). reflexivity.
    + exfalso. apply H. repeat split; auto; lia.
  - destruct (Z.ltb_spec y (width t)); [lia|exact I].
Qed.

Lemma shift_arm_orig_byte : forall t inj o x y, 0 <= y ->
  ~ (o = Shl /\ 0 <= y < width t /\ in_range t (x * 2 ^ y) = false) ->
  meets (sh_spec t inj o x y) (shift_arm checked_sh t inj o x (Some y)).
Proof.
  intros t inj o x y Hy H. unfold shift_arm, sh_spec, checked_sh.
  destruct (Z.leb_spec 0 y); [|lia]. cbn [andb].
  destruct (Z.ltb_spec y (width t)); [|exact I].
  destruct o; [|reflexivity].
  destruct (in_range t (x * 2 ^ y)) eqn:R.
  - rewrite (wrap_id _ _ R). reflexivity.
  - exfalso. apply H. repeat split; auto; lia.
Qed.

Theorem shift_orig : forall m o a b, wf a -> wf b -> is_num a -> is_num b ->
  ~ shl_loses_bits (Shift o) a b ->
  meets (spec_shift o a b) (shift_op (Orig m) o a b).
Proof.
  intros m o a b Ha Hb Na Nb Hk.
  destruct a as [x|x|x|x|x], b as [y|y|y|y|y]; try not_num Na; try not_num Nb;
  unfold spec_shift, shift_op, repr, shl_loses_bits in *;
  cbn [kind_of promote Zval ity_of wf mk sh_fn] in *; widen; try exact I.
  all: try ((apply (shift_arm_orig_try I32 Int) || apply (shift_arm_orig_try I128 Big));
            intros [-> [Hy Hr]]; apply Hk; repeat split; (discriminate || lia || exact Hr)).
  all: (apply (shift_arm_orig_byte I32 Int) || apply (shift_arm_orig_byte I128 Big) || apply (shift_arm_orig_byte U8 Byte));
       [ apply in_range_iff in Hb; cbn in Hb; lia
       | intros [-> [Hy Hr]]; apply Hk; repeat split; (discriminate || lia || exact Hr) ].
Qed.

Theorem binop_orig : forall m op a b, wf a -> wf b -> is_num a -> is_num b ->
  ~ float_by_byte_zero op a b -> ~ rem_min_by_m1 op a b -> (m = Wrap -> ~ overflows op a b) ->
  ~ shl_loses_bits op a b ->
  meets (spec_binop op a b) (binop_eval (Orig m) op a b).
Proof.
  intros m op a b Ha Hb Na Nb H1 H2 H3 H4. destruct op as [o|o|o|o|o]; cbn [spec_binop binop_eval].
  - apply arith_orig; assumption.
  - apply bit_exact; assumption.
  - apply shift_orig; assumption.
  - apply cmp_exact; assumption.
  - pose proof (equals_exact a b Ha Hb Na Nb) as H.
    destruct (spec_eq a b); [|contradiction]. rewrite H. destruct o; reflexivity.
Qed.

Theorem neg_orig_trap : forall a, wf a -> meets (spec_neg a) (negate (Orig Trap) a).
Proof.
  intros a Ha. destruct a as [x|x|x|x|x]; unfold spec_neg, negate, neg_int, plain, repr;
  cbn [ity_of mk meets is_failure lift]; auto.
  - destruct (in_range I32 (- x)); cbn; auto.
  - destruct (in_range I128 (- x)); cbn; auto.
Qed.

(* witnesses: each known class really fails in the faithful model of the original code *)
Lemma orig_wrap_refuted : exists op a b,
  wf a /\ wf b /\ is_num a /\ is_num b /\ overflows op a b /\
  binop_eval (Orig Wrap) op a b = Ok (Int (-2147483648)) /\
  ~ meets (spec_binop op a b) (binop_eval (Orig Wrap) op a b).
Proof.
  exists (Arith Add), (Int 2147483647), (Int 1).
  split; [reflexivity|]. split; [reflexivity|]. split; [discriminate|]. split; [discriminate|].
  split; [exists Add; cbn; repeat split; discriminate|]. split; [reflexivity|].
  vm_compute. auto.
Qed.

Lemma orig_float_by_byte_zero_refuted : forall m, exists op a b,
  wf a /\ wf b /\ is_num a /\ is_num b /\ float_by_byte_zero op a b /\
  binop_eval (Orig m) op a b = Ok (Flt (B754_infinity false)) /\
  ~ meets (spec_binop op a b) (binop_eval (Orig m) op a b).
Proof.
  intros m. exists (Arith Div), (Flt (F_of_Z 1)), (Byte 0).
  assert (E : binop_eval (Orig m) (Arith Div) (Flt (F_of_Z 1)) (Byte 0) = Ok (Flt (B754_infinity false)))
    by (destruct m; vm_compute; reflexivity).
  split; [exact I|]. split; [reflexivity|]. split; [discriminate|]. split; [discriminate|].
  split; [exists Div, (F_of_Z 1); auto|]. split; [exact E|].
  rewrite E. vm_compute. auto.
Qed.

Lemma orig_rem_min_by_m1_refuted : forall m, exists op a b,
  wf a /\ wf b /\ is_num a /\ is_num b /\ rem_min_by_m1 op a b /\
  spec_binop op a b = Exact (Int 0) /\ binop_eval (Orig m) op a b = Panic.
Proof.
  intros m. exists (Arith Rem), (Int (-2147483648)), (Int (-1)).
  split; [reflexivity|]. split; [reflexivity|]. split; [discriminate|]. split; [discriminate|].
  split; [split; [reflexivity | cbn; split; [discriminate | reflexivity]]|].
  split; [reflexivity | destruct m; reflexivity].
Qed.

Lemma orig_shl_refuted : forall m, exists op a b,
  wf a /\ wf b /\ is_num a /\ is_num b /\ shl_loses_bits op a b /\
  spec_binop op a b = Undefined /\ binop_eval (Orig m) op a b = Ok (Int (-2147483648)) /\
  binop_eval Fixed op a b = Err.
Proof.
  intros m. exists (Shift Shl), (Int 3), (Int 31).
  split; [reflexivity|]. split; [reflexivity|]. split; [discriminate|]. split; [discriminate|].
  split; [split; [reflexivity | cbn; split; [discriminate | split; [lia | reflexivity]]]|].
  split; [reflexivity|]. split; [destruct m; reflexivity | reflexivity].
Qed.

Lemma orig_neg_wrap_refuted :
  wf (Int (-2147483648)) /\ spec_neg (Int (-2147483648)) = Undefined /\
  negate (Orig Wrap) (Int (-2147483648)) = Ok (Int (-2147483648)).
Proof. repeat split. Qed.
