// Copies the CURRENT grammar of the repository under test ($MSCRIPT_REPO, default /repo) into OUT_DIR and
// generates the parser declaration pointing at that copy, so that #[derive(pest_derive::Parser)] derives
// the parser from what compiler/src/grammar.pest says now (per target directory: no shared state).
use std::{env, fs, path::PathBuf};
fn main() {
    let repo = env::var("MSCRIPT_REPO").unwrap_or_else(|_| "/repo".into());
    let src = PathBuf::from(&repo).join("compiler/src/grammar.pest");
    let out = PathBuf::from(env::var("OUT_DIR").unwrap());
    let text = fs::read_to_string(&src).expect("grammar.pest of the repository");
    let dst = out.join("grammar.pest");
    fs::write(&dst, text).unwrap();
    let decl = format!(
        "#[derive(pest_derive::Parser)]\n#[grammar = {:?}]\nstruct G;\n",
        dst.to_str().unwrap()
    );
    fs::write(out.join("g.rs"), decl).unwrap();
    println!("cargo:rerun-if-env-changed=MSCRIPT_REPO");
    println!("cargo:rerun-if-changed={}", src.display());
    println!("cargo:rerun-if-changed=build.rs");
}
