// copies the CURRENT grammar of the repository under test next to the crate so that
// #[derive(pest_derive::Parser)] derives the parser from what grammar.pest says now
use std::{env, fs, path::PathBuf};
fn main() {
    let repo = env::var("MSCRIPT_REPO").unwrap_or_else(|_| "/repo".into());
    let src = PathBuf::from(&repo).join("compiler/src/grammar.pest");
    let dst_dir = PathBuf::from(env::var("CARGO_MANIFEST_DIR").unwrap()).join("target");
    fs::create_dir_all(&dst_dir).unwrap();
    let text = fs::read_to_string(&src).expect("grammar.pest of the repository");
    let dst = dst_dir.join("grammar.pest");
    if fs::read_to_string(&dst).ok().as_deref() != Some(text.as_str()) {
        fs::write(&dst, text).unwrap();
    }
    println!("cargo:rerun-if-env-changed=MSCRIPT_REPO");
    println!("cargo:rerun-if-changed={}", src.display());
    println!("cargo:rerun-if-changed=build.rs");
}
