//! pest's own parser, derived from the repository's current grammar.pest with the pest version the
//! compiler uses.  stdin: one case per line `<rule name> <hex of the UTF-8 input | ->`;
//! stdout: `OK depth:rule:start:end ...` (pre-order, positions in Unicode scalars) or `ERR`.
use pest::iterators::Pair;
use pest::Parser;
use std::io::{self, BufRead, Write};

#[derive(pest_derive::Parser)]
#[grammar = "target/grammar.pest"]
struct G;

fn walk(p: Pair<Rule>, depth: usize, cmap: &[usize], out: &mut String) {
    let sp = p.as_span();
    out.push_str(&format!(" {}:{:?}:{}:{}", depth, p.as_rule(), cmap[sp.start()], cmap[sp.end()]));
    for c in p.into_inner() {
        walk(c, depth + 1, cmap, out);
    }
}

fn main() {
    let stdin = io::stdin();
    let stdout = io::stdout();
    let mut w = io::BufWriter::new(stdout.lock());
    let rules: Vec<(String, Rule)> = Rule::all_rules().iter().map(|r| (format!("{:?}", r), *r)).collect();
    for line in stdin.lock().lines() {
        let line = line.unwrap();
        let mut it = line.splitn(2, ' ');
        let rname = it.next().unwrap_or("");
        let hex = it.next().unwrap_or("-");
        let bytes: Vec<u8> = if hex == "-" { vec![] } else {
            (0..hex.len() / 2).map(|i| u8::from_str_radix(&hex[2 * i..2 * i + 2], 16).unwrap()).collect()
        };
        let text = match String::from_utf8(bytes) { Ok(t) => t, Err(_) => { writeln!(w, "BADUTF8").unwrap(); continue; } };
        let rule = match rules.iter().find(|(n, _)| n == rname) { Some((_, r)) => *r, None => { writeln!(w, "NORULE").unwrap(); continue; } };
        // byte offset -> scalar index
        let mut cmap = vec![0usize; text.len() + 1];
        let mut k = 0;
        for (i, ch) in text.char_indices() {
            for j in 0..ch.len_utf8() { cmap[i + j] = k; }
            k += 1;
        }
        cmap[text.len()] = k;
        match G::parse(rule, &text) {
            Ok(pairs) => {
                let mut out = String::from("OK");
                for p in pairs { walk(p, 0, &cmap, &mut out); }
                writeln!(w, "{}", out).unwrap();
            }
            Err(_) => writeln!(w, "ERR").unwrap(),
        }
    }
}
