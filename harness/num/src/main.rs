//! T4 tie for the numeric tower (C05, C06): drives the real operator implementations of
//! `bytecode::BytecodePrimitive` (ops.rs, ops/*.rs, primitive.rs `equals` / `negate`).
//!
//! usage: num_harness <cases> <results>
//! case line:   <op> <operand> [<operand>]
//!   op       : add sub mul div rem lt le gt ge eq ne and or xor shl shr neg
//!   operand  : I<decimal i32> | B<decimal i128> | Y<decimal u8> | F<16 hex digits of f64::to_bits> | Ttrue | Tfalse
//! result line: the same operand notation (floats by bits, NaN canonicalised to 7ff8000000000000),
//!              or ERR (anyhow error) or PANIC (Rust panic caught by catch_unwind).
//! The crate is built in debug (overflow checks on) and in release (overflow checks off).
use bytecode::BytecodePrimitive as P;
use std::io::{BufRead, Write};
use std::panic::{catch_unwind, AssertUnwindSafe};

fn parse(s: &str) -> P {
    let (k, v) = s.split_at(1);
    match k {
        "I" => P::Int(v.parse().unwrap()),
        "B" => P::BigInt(v.parse().unwrap()),
        "Y" => P::Byte(v.parse().unwrap()),
        "F" => P::Float(f64::from_bits(u64::from_str_radix(v, 16).unwrap())),
        "T" => P::Bool(v == "true"),
        _ => panic!("bad operand {s}"),
    }
}

fn show(p: &P) -> String {
    match p {
        P::Int(x) => format!("I{x}"),
        P::BigInt(x) => format!("B{x}"),
        P::Byte(x) => format!("Y{x}"),
        P::Float(x) if x.is_nan() => "F7ff8000000000000".to_owned(),
        P::Float(x) => format!("F{:016x}", x.to_bits()),
        P::Bool(x) => format!("T{x}"),
        other => format!("?{:?}", other.ty()),
    }
}

fn apply(op: &str, a: P, b: Option<P>) -> anyhow::Result<P> {
    if op == "neg" {
        let mut a = a;
        a.negate()?;
        return Ok(a);
    }
    let b = b.expect("binary operator needs two operands");
    match op {
        "add" => a + b,
        "sub" => a - b,
        "mul" => a * b,
        "div" => a / b,
        "rem" => a % b,
        "and" => a & b,
        "or" => a | b,
        "xor" => a ^ b,
        "shl" => a << b,
        "shr" => a >> b,
        "lt" => Ok(P::Bool(a < b)),
        "le" => Ok(P::Bool(a <= b)),
        "gt" => Ok(P::Bool(a > b)),
        "ge" => Ok(P::Bool(a >= b)),
        "eq" => Ok(P::Bool(a.equals(&b)?)),
        "ne" => Ok(P::Bool(!a.equals(&b)?)),
        _ => panic!("bad operator {op}"),
    }
}

fn main() {
    std::panic::set_hook(Box::new(|_| {}));
    let args: Vec<String> = std::env::args().collect();
    let cases = std::io::BufReader::new(std::fs::File::open(&args[1]).unwrap());
    let mut out = std::io::BufWriter::new(std::fs::File::create(&args[2]).unwrap());
    for line in cases.lines() {
        let line = line.unwrap();
        let mut it = line.split(' ');
        let op = it.next().unwrap().to_owned();
        let a = parse(it.next().unwrap());
        let b = it.next().map(parse);
        let r = catch_unwind(AssertUnwindSafe(|| apply(&op, a, b)));
        match r {
            Ok(Ok(v)) => writeln!(out, "{}", show(&v)).unwrap(),
            Ok(Err(_)) => writeln!(out, "ERR").unwrap(),
            Err(_) => writeln!(out, "PANIC").unwrap(),
        }
    }
}
