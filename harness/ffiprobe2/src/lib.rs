//! SECOND probe library for C19 (T7): same symbol names as harness/ffiprobe with DIFFERENT behaviour, one
//! symbol less (`fail` is not exported) and one more (`only2`), so that a program can name the same symbol in two
//! libraries, or a symbol in a library that lacks it, after it has been resolved elsewhere.
//!
//! Every function appends "2:<name> <rendering of the argument slice>" to the file named by FFIPROBE_LOG.
//!   echo    -> Value(Str("lib2:" + rendering))
//!   first   -> Value(clone of the LAST argument)     (NoValue when there is none)
//!   nothing -> NoValue
//!   only2   -> Value(Int(number of arguments))
use bytecode::BytecodePrimitive;
use bytecode::FFIReturnValue;
use std::io::Write;

fn render(args: &[BytecodePrimitive]) -> String {
    let mut out = format!("n={}", args.len());
    for a in args {
        out.push('|');
        match a {
            BytecodePrimitive::Int(x) => out.push_str(&format!("int:{x}")),
            BytecodePrimitive::BigInt(x) => out.push_str(&format!("bigint:{x}")),
            BytecodePrimitive::Float(x) => out.push_str(&format!("float:{:016x}", x.to_bits())),
            BytecodePrimitive::Byte(x) => out.push_str(&format!("byte:{x}")),
            BytecodePrimitive::Bool(x) => out.push_str(&format!("bool:{x}")),
            BytecodePrimitive::Str(x) => {
                out.push_str(&format!("str:{}:", x.len()));
                for b in x.as_bytes() {
                    out.push_str(&format!("{b:02x}"));
                }
            }
            _ => out.push_str("other"),
        }
    }
    out
}

fn log(name: &str, rendering: &str) {
    if let Some(path) = std::env::var_os("FFIPROBE_LOG") {
        if let Ok(mut f) = std::fs::OpenOptions::new().create(true).append(true).open(path) {
            let _ = writeln!(f, "2:{name} {rendering}");
        }
    }
}

#[no_mangle]
pub fn echo(args: &[BytecodePrimitive]) -> FFIReturnValue {
    let r = render(args);
    log("echo", &r);
    FFIReturnValue::Value(BytecodePrimitive::Str(format!("lib2:{r}")))
}

#[no_mangle]
pub fn first(args: &[BytecodePrimitive]) -> FFIReturnValue {
    let r = render(args);
    log("first", &r);
    match args.last() {
        Some(a) => FFIReturnValue::Value(a.clone()),
        None => FFIReturnValue::NoValue,
    }
}

#[no_mangle]
pub fn nothing(args: &[BytecodePrimitive]) -> FFIReturnValue {
    let r = render(args);
    log("nothing", &r);
    FFIReturnValue::NoValue
}

#[no_mangle]
pub fn only2(args: &[BytecodePrimitive]) -> FFIReturnValue {
    let r = render(args);
    log("only2", &r);
    FFIReturnValue::Value(BytecodePrimitive::Int(args.len() as i32))
}
