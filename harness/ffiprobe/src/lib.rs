//! Probe library for C19 (T7): foreign functions with the shape `call_lib` expects
//! (`#[no_mangle] pub fn name(args: &[BytecodePrimitive]) -> FFIReturnValue`, see /repo/ffi).
//!
//! Every function first renders the argument slice it received -- number of arguments, then per argument
//! its kind and its exact value (floats as bit patterns, strings length-prefixed) -- and appends that line
//! to the file named by the environment variable FFIPROBE_LOG (when set), so that the slice is observable
//! for all three return forms.
//!   echo    -> Value(Str(rendering))
//!   first   -> Value(clone of the first argument)   (NoValue when there is none)
//!   nothing -> NoValue
//!   fail    -> raise_error!("probe-fail:" + rendering)
use bytecode::raise_error;
use bytecode::BytecodePrimitive;
use bytecode::FFIReturnValue;
use std::io::Write;

fn render(args: &[BytecodePrimitive]) -> String {
    let mut out = format!("n={}", args.len());
    for a in args {
        out.push('|');
        match a {
            BytecodePrimitive::Int(x) => out.push_str(&format!("int:{x}")),
            BytecodePrimitive::BigInt(x) => out.push_str(&format!("bigint:{x}")),
            BytecodePrimitive::Float(x) => out.push_str(&format!("float:{:016x}", x.to_bits())),
            BytecodePrimitive::Byte(x) => out.push_str(&format!("byte:{x}")),
            BytecodePrimitive::Bool(x) => out.push_str(&format!("bool:{x}")),
            BytecodePrimitive::Str(x) => {
                out.push_str(&format!("str:{}:", x.len()));
                for b in x.as_bytes() {
                    out.push_str(&format!("{b:02x}"));
                }
            }
            _ => out.push_str("other"),
        }
    }
    out
}

fn log(name: &str, rendering: &str) {
    if let Some(path) = std::env::var_os("FFIPROBE_LOG") {
        if let Ok(mut f) = std::fs::OpenOptions::new().create(true).append(true).open(path) {
            let _ = writeln!(f, "{name} {rendering}");
        }
    }
}

#[no_mangle]
pub fn echo(args: &[BytecodePrimitive]) -> FFIReturnValue {
    let r = render(args);
    log("echo", &r);
    FFIReturnValue::Value(BytecodePrimitive::Str(r))
}

#[no_mangle]
pub fn first(args: &[BytecodePrimitive]) -> FFIReturnValue {
    let r = render(args);
    log("first", &r);
    match args.first() {
        Some(a) => FFIReturnValue::Value(a.clone()),
        None => FFIReturnValue::NoValue,
    }
}

#[no_mangle]
pub fn nothing(args: &[BytecodePrimitive]) -> FFIReturnValue {
    let r = render(args);
    log("nothing", &r);
    FFIReturnValue::NoValue
}

#[no_mangle]
pub fn fail(args: &[BytecodePrimitive]) -> FFIReturnValue {
    let r = render(args);
    log("fail", &r);
    let message = format!("probe-fail:{r}");
    raise_error!(message)
}

/// failmsg -> raise_error!(the first argument, a str, VERBATIM: may be empty or have several lines)
#[no_mangle]
pub fn failmsg(args: &[BytecodePrimitive]) -> FFIReturnValue {
    let r = render(args);
    log("failmsg", &r);
    let message = match args.first() {
        Some(BytecodePrimitive::Str(s)) => s.to_string(),
        _ => String::new(),
    };
    raise_error!(message)
}

/// failif2 -> Value(Int(2 * x)) for an int argument x, except x == 2: raise_error!("probe-failif:2")
#[no_mangle]
pub fn failif2(args: &[BytecodePrimitive]) -> FFIReturnValue {
    let r = render(args);
    log("failif2", &r);
    match args.first() {
        Some(BytecodePrimitive::Int(2)) => {
            let message = "probe-failif:2".to_string();
            raise_error!(message)
        }
        Some(BytecodePrimitive::Int(x)) => FFIReturnValue::Value(BytecodePrimitive::Int(2 * x)),
        _ => FFIReturnValue::NoValue,
    }
}
