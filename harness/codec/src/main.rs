//! T4 tie for the codecs (C04, C18): drives the real writer, tokenizer, loader and transpiler.
//!
//! usage: codec_harness <cases> <results> <scratch dir>
//! case lines:
//!   F <name>|<op>:<arg>,<arg>;<op>;...  [ # more functions separated by '#']   (strings hex-encoded UTF-8)
//!   S <0|1> <hex string>                         tokenizer only (multi flag)
//! result line per case (tab separated):
//!   F: bin=<hex|ERR> load=<hex dump|ERR|PANIC> text=<hex|ERR> tbin=<hex|ERR|PANIC> tload=<hex dump|ERR|PANIC>
//!   S: OK <hex>,<hex>,... | ERR
use std::io::{BufRead, Write};
use std::panic::{catch_unwind, AssertUnwindSafe};

fn unhex(s: &str) -> String {
    let bytes: Vec<u8> = (0..s.len() / 2)
        .map(|i| u8::from_str_radix(&s[2 * i..2 * i + 2], 16).unwrap())
        .collect();
    String::from_utf8(bytes).unwrap()
}
fn hex(s: &[u8]) -> String {
    let mut out = String::with_capacity(s.len() * 2 + 1);
    for b in s {
        out.push_str(&format!("{b:02x}"));
    }
    if out.is_empty() {
        out.push('-');
    }
    out
}

type Fns = Vec<(String, Vec<(u8, Vec<String>)>)>;

fn parse_fns(spec: &str) -> Fns {
    spec.split('#')
        .map(|f| {
            let (name, body) = f.split_once('|').unwrap();
            let instrs = if body.is_empty() {
                vec![]
            } else {
                body.split(';')
                    .map(|i| match i.split_once(':') {
                        Some((op, args)) => (
                            op.parse().unwrap(),
                            args.split(',').map(|a| unhex(a.trim_matches('-'))).collect(),
                        ),
                        None => (i.parse().unwrap(), vec![]),
                    })
                    .collect()
            };
            (unhex(name.trim_matches('-')), instrs)
        })
        .collect()
}

fn guarded<T>(f: impl FnOnce() -> anyhow::Result<T>) -> Result<T, &'static str> {
    match catch_unwind(AssertUnwindSafe(f)) {
        Ok(Ok(v)) => Ok(v),
        Ok(Err(_)) => Err("ERR"),
        Err(_) => Err("PANIC"),
    }
}

fn main() {
    std::panic::set_hook(Box::new(|_| {}));
    let args: Vec<String> = std::env::args().collect();
    let cases = std::io::BufReader::new(std::fs::File::open(&args[1]).unwrap());
    let mut out = std::io::BufWriter::new(std::fs::File::create(&args[2]).unwrap());
    let scratch = &args[3];
    let bin_path = format!("{scratch}/case.mmm");
    let txt_path = format!("{scratch}/case.transpiled.mmm");
    let tbin_path = format!("{scratch}/case2.mmm");
    for line in cases.lines() {
        let line = line.unwrap();
        if let Some(path) = line.strip_prefix("L ") {
            // load a .mmm file exactly as the interpreter does and dump what was read
            match guarded(|| bytecode::verif::load_and_dump(&unhex(path))) {
                Ok(d) => writeln!(out, "load={}", hex(d.as_bytes())).unwrap(),
                Err(e) => writeln!(out, "load={e}").unwrap(),
            }
            continue;
        }
        if let Some(rest) = line.strip_prefix("S ") {
            let (multi, s) = rest.split_once(' ').unwrap();
            let s = unhex(s.trim_matches('-'));
            match guarded(|| bytecode::compilation_bridge::split_string_v2(&s, multi == "1")) {
                Ok(parts) => {
                    let parts: Vec<String> = parts.iter().map(|p| hex(p.as_bytes())).collect();
                    writeln!(out, "OK {}", parts.join(",")).unwrap();
                }
                Err(e) => writeln!(out, "{e}").unwrap(),
            }
            continue;
        }
        let fns = parse_fns(line.strip_prefix("F ").unwrap());
        // binary path: writer -> file -> loader
        let bin = guarded(|| compiler::verif::repr_functions(&fns, false));
        let load = match &bin {
            Ok(b) => {
                std::fs::write(&bin_path, b.as_bytes()).unwrap();
                guarded(|| bytecode::verif::load_and_dump(&bin_path)).map(|d| hex(d.as_bytes()))
            }
            Err(e) => Err(*e),
        };
        // text path: writer(text) -> file -> transpiler -> file -> loader
        let text = guarded(|| compiler::verif::repr_functions(&fns, true));
        let (tbin, tload) = match &text {
            Ok(t) => {
                std::fs::write(&txt_path, t.as_bytes()).unwrap();
                let _ = std::fs::remove_file(&tbin_path);
                match guarded(|| bytecode_dev_transpiler::transpile_file(&txt_path, &tbin_path)) {
                    Ok(()) => {
                        let b = std::fs::read(&tbin_path).unwrap();
                        let l = guarded(|| bytecode::verif::load_and_dump(&tbin_path))
                            .map(|d| hex(d.as_bytes()));
                        (Ok(hex(&b)), l)
                    }
                    Err(e) => (Err(e), Err(e)),
                }
            }
            Err(e) => (Err(*e), Err(*e)),
        };
        let s = |r: Result<String, &'static str>| r.unwrap_or_else(|e| e.to_string());
        writeln!(
            out,
            "bin={}\tload={}\ttext={}\ttbin={}\ttload={}",
            s(bin.map(|b| hex(b.as_bytes()))),
            s(load),
            s(text.map(|b| hex(b.as_bytes()))),
            s(tbin),
            s(tload)
        )
        .unwrap();
    }
}
