#!/usr/bin/env python3
"""T6 translator: /repo/compiler/src/grammar.pest -> coq/Gen/Grammar.v

The pest grammar file is parsed with a small recursive-descent parser for pest's meta-grammar
(pest_meta 2.x `grammar.pest`: rules `name = modifier? { expression }`, `~` binds tighter than `|`,
prefix `& !`, postfix `? * +`, string / case-insensitive string / char-range terminals, identifiers,
`//` and `/* */` comments).  Fails closed: any construct it does not understand (stack operations
PUSH/POP/PEEK/DROP, `{n}` / `{n,m}` repetitions, node tags `#t =`, unicode property built-ins, unknown
identifiers, duplicate rules ...) raises PestError; the driver reports that as a break.

Python AST (also used by the input generators of vlib/c16.py):
    ('str', s) ('insens', s) ('range', lo, hi) ('ident', name) ('any',) ('soi',) ('eoiprim',)
    ('seq', a, b) ('choice', a, b) ('opt', a) ('star', a) ('plus', a) ('pos', a) ('neg', a)
rules: list of (name, modifier, expr, builtin?) with modifier in normal|silent|atomic|compound|nonatomic.
Built-in rules the grammar refers to are appended after the user rules with their definition from
pest_generator 2.8 `generate_builtin_rules` (ANY, SOI primitives; EOI = { end_of_input } is a NORMAL rule:
it produces a token; NEWLINE and the ASCII_* classes are silent rules over ranges).
"""
import os
import sys


class PestError(ValueError):
    pass


MODS = {"_": "silent", "@": "atomic", "$": "compound", "!": "nonatomic"}


def _r(lo, hi):
    return ("range", lo, hi)


def _ch(*xs):
    e = xs[-1]
    for x in reversed(xs[:-1]):
        e = ("choice", x, e)
    return e


# pest_generator-2.8.1/src/generator.rs generate_builtin_rules
BUILTINS = {
    "ANY": ("silent", ("any",)),
    "SOI": ("silent", ("soi",)),
    "EOI": ("normal", ("eoiprim",)),
    "ASCII_DIGIT": ("silent", _r("0", "9")),
    "ASCII_NONZERO_DIGIT": ("silent", _r("1", "9")),
    "ASCII_BIN_DIGIT": ("silent", _r("0", "1")),
    "ASCII_OCT_DIGIT": ("silent", _r("0", "7")),
    "ASCII_HEX_DIGIT": ("silent", _ch(_r("0", "9"), _r("a", "f"), _r("A", "F"))),
    "ASCII_ALPHA_LOWER": ("silent", _r("a", "z")),
    "ASCII_ALPHA_UPPER": ("silent", _r("A", "Z")),
    "ASCII_ALPHA": ("silent", _ch(_r("a", "z"), _r("A", "Z"))),
    "ASCII_ALPHANUMERIC": ("silent", _ch(_r("a", "z"), _r("A", "Z"), _r("0", "9"))),
    "ASCII": ("silent", _r("\x00", "\x7f")),
    "NEWLINE": ("silent", _ch(("str", "\n"), ("str", "\r\n"), ("str", "\r"))),
}
UNSUPPORTED_BUILTINS = {"PUSH", "POP", "POP_ALL", "PEEK", "PEEK_ALL", "DROP", "PUSH_LITERAL"}


class P:
    def __init__(self, text):
        self.t = text
        self.i = 0

    def err(self, msg):
        line = self.t.count("\n", 0, self.i) + 1
        raise PestError("grammar.pest line %d: %s (at %r)" % (line, msg, self.t[self.i:self.i + 30]))

    def ws(self):
        t = self.t
        while self.i < len(t):
            c = t[self.i]
            if c in " \t\r\n":
                self.i += 1
            elif t.startswith("//", self.i):
                if t.startswith("///", self.i) or t.startswith("//!", self.i):
                    pass  # doc comments carry no semantics
                j = t.find("\n", self.i)
                self.i = len(t) if j < 0 else j + 1
            elif t.startswith("/*", self.i):
                depth, j = 1, self.i + 2
                while depth and j < len(t):
                    if t.startswith("/*", j):
                        depth += 1
                        j += 2
                    elif t.startswith("*/", j):
                        depth -= 1
                        j += 2
                    else:
                        j += 1
                if depth:
                    self.err("unterminated block comment")
                self.i = j
            else:
                break

    def peek(self, s):
        return self.t.startswith(s, self.i)

    def eat(self, s):
        if not self.peek(s):
            self.err("expected %r" % s)
        self.i += len(s)

    def ident(self):
        t, j = self.t, self.i
        if j < len(t) and (t[j] == "_" or (t[j].isascii() and t[j].isalpha())):
            j += 1
            while j < len(t) and (t[j] == "_" or (t[j].isascii() and t[j].isalnum())):
                j += 1
            name = t[self.i:j]
            self.i = j
            return name
        self.err("identifier expected")

    def escape(self):
        """after a backslash"""
        t = self.t
        c = t[self.i]
        simple = {'"': '"', "\\": "\\", "n": "\n", "r": "\r", "t": "\t", "0": "\0", "'": "'"}
        if c in simple:
            self.i += 1
            return simple[c]
        if c == "x":
            h = t[self.i + 1:self.i + 3]
            if len(h) != 2 or any(x not in "0123456789abcdefABCDEF" for x in h):
                self.err("bad \\x escape")
            self.i += 3
            return chr(int(h, 16))
        if c == "u":
            if t[self.i + 1] != "{":
                self.err("bad \\u escape")
            j = t.find("}", self.i)
            h = t[self.i + 2:j]
            if j < 0 or not (2 <= len(h) <= 6) or any(x not in "0123456789abcdefABCDEF" for x in h):
                self.err("bad \\u escape")
            self.i = j + 1
            return chr(int(h, 16))
        self.err("unknown escape")

    def string(self):
        self.eat('"')
        out = []
        t = self.t
        while True:
            if self.i >= len(t):
                self.err("unterminated string")
            c = t[self.i]
            if c == '"':
                self.i += 1
                return "".join(out)
            if c == "\\":
                self.i += 1
                out.append(self.escape())
            else:
                out.append(c)
                self.i += 1

    def char(self):
        self.eat("'")
        t = self.t
        if t[self.i] == "\\":
            self.i += 1
            c = self.escape()
        else:
            c = t[self.i]
            if c == "'":
                self.err("empty character literal")
            self.i += 1
        self.eat("'")
        return c

    # expression = choice_operator? term (infix term)*     `~` binds tighter than `|`
    def expression(self):
        self.ws()
        if self.peek("|"):
            self.i += 1
        alts = [self.sequence()]
        while True:
            self.ws()
            if self.peek("|"):
                self.i += 1
                alts.append(self.sequence())
            else:
                break
        e = alts[-1]
        for a in reversed(alts[:-1]):
            e = ("choice", a, e)
        return e

    def sequence(self):
        items = [self.term()]
        while True:
            self.ws()
            if self.peek("~"):
                self.i += 1
                items.append(self.term())
            else:
                break
        e = items[-1]
        for a in reversed(items[:-1]):
            e = ("seq", a, e)
        return e

    def term(self):
        self.ws()
        prefixes = []
        while self.peek("&") or self.peek("!"):
            prefixes.append(self.t[self.i])
            self.i += 1
            self.ws()
        e = self.node()
        while True:
            self.ws()
            if self.peek("?"):
                self.i += 1
                e = ("opt", e)
            elif self.peek("*"):
                self.i += 1
                e = ("star", e)
            elif self.peek("+"):
                self.i += 1
                e = ("plus", e)
            elif self.peek("{"):
                self.err("bounded repetition {n} / {n,m} is not supported by the translator")
            else:
                break
        for p in reversed(prefixes):
            e = ("pos", e) if p == "&" else ("neg", e)
        return e

    def node(self):
        self.ws()
        if self.peek("("):
            self.i += 1
            e = self.expression()
            self.ws()
            self.eat(")")
            return e
        if self.peek('"'):
            return ("str", self.string())
        if self.peek("^"):
            self.i += 1
            return ("insens", self.string())
        if self.peek("'"):
            lo = self.char()
            self.ws()
            self.eat("..")
            self.ws()
            hi = self.char()
            if ord(lo) > ord(hi):
                self.err("empty range")
            return ("range", lo, hi)
        if self.peek("#"):
            self.err("node tags are not supported by the translator")
        name = self.ident()
        self.ws()
        if self.peek("[") or (name in UNSUPPORTED_BUILTINS):
            self.err("stack operation %s is not supported by the translator" % name)
        return ("ident", name)

    def rules(self):
        out = []
        while True:
            self.ws()
            if self.i >= len(self.t):
                return out
            name = self.ident()
            self.ws()
            self.eat("=")
            self.ws()
            mod = "normal"
            if self.t[self.i] in MODS:
                mod = MODS[self.t[self.i]]
                self.i += 1
                self.ws()
            self.eat("{")
            e = self.expression()
            self.ws()
            self.eat("}")
            out.append((name, mod, e))


def idents(e):
    if e[0] == "ident":
        yield e[1]
    for x in e[1:]:
        if isinstance(x, tuple):
            yield from idents(x)


def parse_text(text):
    """-> list of (name, modifier, expr, is_builtin); user rules in file order, then used built-ins"""
    user = P(text).rules()
    if not user:
        raise PestError("no rules")
    names = [n for n, _, _ in user]
    if len(set(names)) != len(names):
        raise PestError("duplicate rule: %s" % sorted(n for n in names if names.count(n) > 1)[0])
    for n in names:
        if n in BUILTINS or n in UNSUPPORTED_BUILTINS:
            raise PestError("rule %s redefines a built-in" % n)
    used = []
    for n, _, e in user:
        for i in idents(e):
            if i in names:
                continue
            if i in BUILTINS:
                if i not in used:
                    used.append(i)
            else:
                raise PestError("rule %s refers to %s, which is neither defined nor a supported built-in" % (n, i))
    rules = [(n, m, e, False) for n, m, e in user]
    for b in sorted(used):
        rules.append((b, BUILTINS[b][0], BUILTINS[b][1], True))
    return rules


def parse(repo):
    return parse_text(open(os.path.join(repo, "compiler/src/grammar.pest"), encoding="utf8").read())


# ------------------------------------------------------------------------------ rendering

def coq_str(s):
    return "[" + "; ".join(str(ord(c)) for c in s) + "]"


def render_exp(e, idx):
    k = e[0]
    if k == "str":
        return "PStr %s" % coq_str(e[1])
    if k == "insens":
        return "PInsens %s" % coq_str(e[1])
    if k == "range":
        return "PRange %d %d" % (ord(e[1]), ord(e[2]))
    if k == "ident":
        return "PCall %d" % idx[e[1]]
    if k == "any":
        return "PAny"
    if k == "soi":
        return "PSoi"
    if k == "eoiprim":
        return "PEoiPrim"
    two = {"seq": "PSeq", "choice": "PChoice"}
    one = {"opt": "POpt", "star": "PStar", "plus": "PPlus", "pos": "PPos", "neg": "PNeg"}
    if k in two:
        return "%s (%s) (%s)" % (two[k], render_exp(e[1], idx), render_exp(e[2], idx))
    if k in one:
        return "%s (%s)" % (one[k], render_exp(e[1], idx))
    raise PestError("cannot render %r" % (e,))


COQMOD = {"normal": "MNormal", "silent": "MSilent", "atomic": "MAtomic", "compound": "MCompound", "nonatomic": "MNonAtomic"}


def render(rules):
    idx = {n: i for i, (n, _, _, _) in enumerate(rules)}
    out = ["(* GENERATED by gen/pest2coq.py from compiler/src/grammar.pest -- do not edit *)",
           "From MS Require Import Peg.Syntax.", "",
           "Definition g : grammar :=", "  ["]
    rows = []
    for i, (n, m, e, b) in enumerate(rules):
        rows.append("   (* %d %s%s *)\n   {| rname := %s; rmod := %s;\n      rbody := %s |}" % (
            i, n, " (built-in)" if b else "", coq_str(n), COQMOD[m], render_exp(e, idx)))
    out.append(";\n".join(rows))
    out += ["  ].", ""]
    for n, i in idx.items():
        out.append("Definition r_%s : nat := %d." % (n, i))
    out.append("")
    for special in ("WHITESPACE", "COMMENT"):
        out.append("Definition skip_%s : option nat := %s." % (
            special.lower(), ("Some %d%%nat" % idx[special]) if special in idx else "None"))
    return "\n".join(out) + "\n"


def main(repo, dest):
    rules = parse(repo)
    txt = render(rules)
    os.makedirs(os.path.dirname(dest), exist_ok=True)
    if not os.path.exists(dest) or open(dest).read() != txt:
        open(dest, "w").write(txt)
    return rules


if __name__ == "__main__":
    rs = main(sys.argv[1] if len(sys.argv) > 1 else "/repo",
              sys.argv[2] if len(sys.argv) > 2 else os.path.join(os.path.dirname(os.path.abspath(__file__)), "..", "coq", "Gen", "Grammar.v"))
    print("%d rules (%d built-in)" % (len(rs), sum(1 for r in rs if r[3])))
