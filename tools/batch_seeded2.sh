#!/bin/bash
# round 2: /tmp/seedout2/<P>/<k> -> /verif/seeded/<P>-r2-<k>
cd /verif
for P in "$@"; do
  for k in 1 2; do
    src=/tmp/seedout2/$P/$k
    [ -d "$src" ] || continue
    dst=seeded/$P-r2-$k
    mkdir -p $dst && cp -r $src/* $dst/
    echo "=== $P-r2-$k"; python3 tools/run_seeded.py $dst $P 2>&1 | tail -7
  done
done
