#!/bin/bash
# copy every delivered seed into /verif/seeded/<P>-<k>/ and run the property's check against it
cd /verif
for P in "$@"; do
  for k in 1 2; do
    src=/tmp/seedout/$P/$k
    [ -d "$src" ] || continue
    dst=seeded/$P-$k
    mkdir -p $dst && cp -r $src/* $dst/
    python3 - "$P" "$dst" <<'PY'
import json,sys,subprocess,os
P,dst=sys.argv[1],sys.argv[2]
base=subprocess.run(['git','-C','/repo','log','--format=%h','-1'],capture_output=True,text=True).stdout.strip()
notes=open(os.path.join(dst,'notes.txt')).read() if os.path.exists(os.path.join(dst,'notes.txt')) else ''
json.dump({"property":P,"base_commit_when_checked":base,"needs_to_manifest":notes[:1500],"what_was_run":"tools/run_seeded.py (scratch worktree, nextest, demo both ways, ./verify check)"},open(os.path.join(dst,'meta.json'),'w'),indent=1)
PY
    echo "=== $P-$k"; python3 tools/run_seeded.py $dst $P 2>&1 | tail -7
  done
done
