#!/usr/bin/env python3
"""write meta.json for seeded changes that lack one, and print the DESIGN.md section-11 table rows
(seed | change | caught by | first run) from seeded/*/meta.json + check_result.json"""
import json, os, subprocess, sys

V = os.path.dirname(os.path.dirname(os.path.abspath(__file__)))
FIRST = {  # why the first run of the property's quick check missed the change (round 2)
    "C01-r2-1": "caught at first run",
    "C01-r2-2": "programs were always rendered fully parenthesised: the parser's precedence table was never exercised (now: minimal-parentheses rendering of every second program + the operator-pair matrix)",
    "C02-r2-1": "no colliding loop counter whose existing variable has another kind",
    "C02-r2-2": "caught at first run",
    "C04-r2-1": "caught at first run", "C04-r2-2": "caught at first run",
    "C05-r2-1": "caught at first run",
    "C05-r2-2": "the change is in the compile-time folder: C05's programs passed every operand through a variable, so only C06 (folding preserves value) saw it; C05's CLI cases now write a third of the expressions with literal operands",
    "C07-r2-1": "no `modify` of a captured variable of function type",
    "C07-r2-2": "no loop counter named like a captured variable with a use of the name after the loop",
    "C09-r2-1": "caught at first run",
    "C09-r2-2": "no function ending in a loop with a constant-true condition left by break",
    "C13-r2-1": "caught at first run", "C13-r2-2": "caught at first run",
    "C14-r2-1": "caught at first run", "C14-r2-2": "caught at first run",
    # round 3 (the twelve properties not seeded in round 2)
    "C03-r3-1": "no fixed-shape list type `[T1, T2]` in any template (now: initializer / argument / result with one element too many, too few, wrong type)",
    "C03-r3-2": "a re-assignment inside a block always had its declaration inside the same block, except under `if` (now: declared outside while / from / else / else-if / two levels)",
    "C06-r3-1": "caught at first run", "C06-r3-2": "caught at first run",
    "C08-r3-1": "caught at first run",
    "C08-r3-2": "every method that READ a field returned the field itself: no expression over a field (now: -self.f, self.f + self.f, self.f > 0, !self.f, self.f + \"\" as methods, in the Coq model as MRo with theorem readonly_method_changes_nothing)",
    "C10-r3-1": "caught at first run", "C10-r3-2": "caught at first run",
    "C11-r3-1": "caught at first run", "C11-r3-2": "caught at first run",
    "C12-r3-1": "optionals were variables, parameters and results only: no class field, list element, map value or method result as operand of get / or / == nil / ?= (now: container_cases)",
    "C12-r3-2": "caught at first run",
    "C15-r3-1": "operands were logging calls, literals and variables: no element / field / map-value operand whose slot a LATER sibling writes",
    "C15-r3-2": "map literals had keys in ascending order only; besides, two kinds of the extended stream had been silently rejected by the compiler since an earlier fix (a rejected case is now reported)",
    "C16-r3-1": "caught at first run",
    "C16-r3-2": "the boundary inputs were deep, never wide: no long flat operator chain / argument list / literal (now: breadth_suspects, 40 and 200 items)",
    "C17-r3-1": "caught at first run", "C17-r3-2": "caught at first run",
    "C18-r3-1": "`/` was not in the alphabet of generated arguments (now: `/`, comment-like tokens of other formats, 20% of strings over all printable ASCII)",
    "C18-r3-2": "caught at first run",
    "C19-r3-1": "the failing foreign call was always an instruction of the module function (now: through `call`, two nested calls, and as the callback of the built-in map)",
    "C19-r3-2": "the probe's error message was always one non-empty line (now: failmsg raises its argument verbatim: empty, several lines, long, non-ASCII)",
    "C20-r3-1": "caught at first run",
    # round 4 (all twenty properties)
    "C02-r4-1": "caught at first run", "C02-r4-2": "caught at first run",
    "C03-r4-1": "the wrong-typed expression put in a typed position was never an OPTIONAL of the right type (now: `T?` where `T` is required, in initializers, arguments, conditions)",
    "C03-r4-2": "no function-typed position (parameter, annotated variable, result) in any template",
    "C04-r4-1": "the codec generator skipped repeated function names (the theorem's side condition), so the loader's keep-the-last rule was never exercised; two same-named classes in different scopes added to the run-vs-execute programs",
    "C04-r4-2": "run vs compile+execute was compared on programs that end normally or with a diagnostic only (now: every failure kind, at module level and inside functions)",
    "C05-r4-1": "caught at first run", "C05-r4-2": "caught at first run",
    "C06-r4-1": "no tree whose value is MIN / -1 (MIN needs depth 2); note: the change is in the RUN-TIME operator, C05 catches it as well",
    "C06-r4-2": "caught at first run",
    "C07-r4-1": "the right-hand side of `modify` was always a scalar expression, never an element or field (a view)",
    "C07-r4-2": "closures were created in function bodies and at module level, never inside an if / loop body over a variable declared in that body",
    "C09-r4-1": "the verified certificate speaks about jumps, frames and operand lengths; compiler temporaries (`#k`) were not tracked (now: an unverified definite-assignment lint over the same edges, and all bracketings of 3 logical operators)",
    "C09-r4-2": "caught at first run",
    "C10-r4-1": "write paths had one postfix level; parenthesised multi-level paths `(a[0])[1] op= v` were absent",
    "C10-r4-2": "`import <path>` was not among the write forms (now: const / class / module name protected against every spelling of the path)",
    "C01-r4-1": "caught at first run",
    "C01-r4-2": "the check's programs avoid literal-only sub-expressions (the code-generator model does not fold), so the compile-time evaluator was out of sight; it is the same change as C05-r2-2, which C06 catches (now: constant_programs with a Python statement of the arithmetic)",
    "C08-r4-1": "histories were straight-line: no expression in which an object-valued field is read as receiver / argument and re-pointed by a later argument",
    "C08-r4-2": "caught at first run",
    "C11-r4-1": "exported scalars never changed after their export statement",
    "C11-r4-2": "the hidden names importers tried to reach were untyped; a typed declaration without `export` was not tried",
    "C12-r4-1": "`get` never stood in statement position",
    "C12-r4-2": "the literal `nil` was always the right operand of == / !=",
    "C13-r4-1": "caught at first run", "C13-r4-2": "caught at first run",
    "C14-r4-1": "caught at first run", "C14-r4-2": "caught at first run",
    "C15-r4-1": "comparison shapes used only `<` and `==`, arithmetic only + - * (now: every operator of the language with two logging operands)",
    "C15-r4-2": "no call through a function-typed FIELD whose argument re-assigns that field",
    "C16-r4-1": "caught at first run", "C16-r4-2": "caught at first run",
    "C17-r4-1": "every generated source file started with code on line 1 (now: blank, whitespace-only and comment lines first in some files)",
    "C17-r4-2": "failing programs were only run with `mscript run`; the compile + execute route was C04's business (now: a third of them through both)",
    "C18-r4-1": "caught at first run (duplicate labels were added for C04-r4-1 just before)",
    "C18-r4-2": "the entry path was always spelled without a leading `./` (now: plain, `./`, absolute, the same spelling in every step) and no method constructed its own class through `Self(..)`",
    "C19-r4-1": "caught at first run",
    "C19-r4-2": "the failing foreign call never ran during a module import",
    "C20-r4-1": "caught at first run",
    "C20-r4-2": "the directory handed to `clean` was never named like a source file",
    # round 5 (evaluated with VERIF_SEED=1)
    "C03-r5-1": "no template had a `from` loop whose bounds or step are of the wrong type (now: t_from_loop, each of the three positions x six wrong kinds)",
    "C04-r5-1": "run vs compile+execute never ran a program in which the name of a finished loop's counter is declared again inside a later loop body and captured per iteration (now: four fixed name-lifetime programs)",
    "C04-r5-2": "two classes of one name were only declared in two FUNCTIONS, and that fixed program did not even compile (`Box().size()`: one postfix per atom) - the rejection went unnoticed; now repaired, plus the same name in the two branches of an if/else and in two blocks",
    "C05-r5-2": "the command-line stream wrote operands as literals inside the expression only for a random third of the cases; the (byte, bigint) multiplication was not among them (now: every (operator, kind, kind) triple both ways, kinds compared through the typed print)",
    "C06-r5-1": "fallbacks with a nested `or` had the failing constant INSIDE the inner fallback only, never after a completed inner `or`",
    "C07-r5-1": "no history in which the OWNER re-assigns a captured variable with `?=` (or from inside a block) and a closure reads it afterwards (now: OWNER_WRITE_CASES, 17 fixed programs)",
    "C08-r5-2": "optional class-typed fields were read once per variable; no variable received a present and then a nil field of ANOTHER object",
    "C09-r5-1": "functions with opcodes outside the VM model get a frames-only analysis, and no program applied a compound assignment to an element with a composite right operand (now: 700 fixed programs target x operator x operand form, the other checks' catalogues, and a scan of every run for the interpreter's operand-stack complaints)",
    "C10-r5-1": "constants were declared by `const a = ..` only, never by unpacking (`const [a, dd] = ..`): three new declaration contexts in the matrix (model: SUnpack true)",
    "C10-r5-2": "a copy of a module was written through at its own level, in a block and inside the function that made the copy, never from a closure that CAPTURED the copy",
    "C11-r5-2": "names were imported from a module in one order only; no middle module imported a non-class name before a class and exported members typed with that class (now: all 24 orders of four names, 27 chains)",
    "C12-r5-1": "the reported position of a failing `get` was compared by line only outside the Core programs, and Core programs are ASCII (now: column in characters after accents, CJK, emoji, combining marks, tabs)",
    "C12-r5-2": "same gap as C06-r5-1: nothing followed a nested `or` inside a fallback",
    "C15-r5-1": "the deciding left operand of && / || was always a variable, call or comparison, never a value read through an index, a field or a map (now: 12 forms x 3 uses, both operators)",
    "C15-r5-2": "map literals were never nested inside the value of a pair of another map literal",
    "C16-r5-1": "nesting was either shallow (generated) or extreme (1000 levels: the known stack overflow); nothing sat at a few dozen levels where only TIME can fail (now: 14 constructs x depths 24 / 40 / 64)",
    "C16-r5-2": "constant operands at the boundaries (MIN, -1, widths) were C05/C06 business; the compile-never-panics check did not feed them to the folder (now: 1980 fixed operator x boundary x boundary inputs)",
    "C17-r5-1": "the failing statement was wrapped in blocks that run once without `break` / `continue`; frames left behind by an earlier, finished loop were never in a trace (now: 15 loop shapes x 6 contexts x 3 places, trace compared with the twin that never ran the loop)",
    "C18-r5-1": "every source file had a one-dot name; `report.v2.ms` and friends now go through the pipeline (with a stale neighbour `report.mmm` in place)",
    "C18-r5-2": "the pipeline always ran in a fresh directory: the output never replaced an older, longer file (now: version histories long-short, short-long, long-mid-short in one directory)",
    "C20-r5-2": "file names were str: names that are not valid UTF-8 (Latin-1 `caf\\xe9.mmm`) could not even be written down by the generator (now: a byte-level stream outside the model)",
    # round 6 (seeders told to look for what a tester holds constant; evaluated with VERIF_SEED=1)
    "C01-r6-1": "an index never went below zero at run time in any program (now: boundary_value_programs: counting down, computed, in a function, negative two, writes)",
    "C01-r6-2": "integers were compared with integers only; a literal beyond 32 bits (a bigint) on the other side of < <= > >= == != never occurred",
    "C02-r6-2": "str element assignment was tried on a local str only, never on a str of an enclosing scope (captured: another type wrapper)",
    "C03-r6-1": "the unknown name injected into an initializer was always a fresh identifier, never the name being declared",
    "C03-r6-2": "wrong-typed initializers were variables and literals; a CONSTANT EXPRESSION, whose kind the compiler's folder decides with a table of its own, was never declared with another kind (now: all 375 operator x kind x kind x declared-kind mismatches, and the 125 matching twins)",
    "C06-r6-1": "every tree was all literals or all variables: a literal sub-expression NEXT TO a non-constant operand (on either side, in a branch never taken) was never built (now: 13 contexts x 9 failing / 5 harmless literals)",
    "C07-r6-1": "owner writes after capture were tried on function- and module-level variables; a variable LOCAL TO A BLOCK captured there and re-assigned in that block was not",
    "C07-r6-2": "fields were reached through self / the object only, never by their bare name from methods and closures made in methods next to obj.field writes",
    "C09-r6-1": "single-file programs: the interpreter was never made to stray from well-formed code by state shared BETWEEN files (now: every executed step is checked to be an edge of the dumped code - 16 million steps in the quick tier - and two-file programs whose same-named functions jump at equal indexes with different offsets run in both orders)",
    "C11-r6-1": "no two modules shared a FILE NAME in different directories",
    "C17-r6-1": "the asserted value was always a bool; nil in a bool slot (missing key of a map of bools) never reached an assert",
    "C17-r6-2": "failures happened in functions called after the imports had completed, never in a module's own top-level code while it is being imported (now: 4 failures x 3 places x 4 ways of importing; kind, position and trace stated exactly)",
    "C18-r6-1": "the pipeline's programs recurse a few levels at most: `run` and `execute` were never given a recursion that only fits one of two different stack sizes (now: depth 30 and 45)",
    "C04-r6-1": "literals were short or ASCII: no multi-byte character ever sat at an exact byte offset of a long literal (the difference is in a log argument that only `run` evaluates; dumps are identical) (now: literal_boundary_programs, 81)",
    "C04-r6-2": "every program was tiny: no record of the bytecode file came near 64 KiB (now: size_programs, 80: literals of 1000 bytes to 1 MiB, long tables, many functions, long names)",
    "C05-r6-1": "operators were applied as `a op b` on variables and literals only, never as a compound assignment through an element / field / map slot (now: compound_cases, 1030 per build)",
    "C11-r6-2": "an imported name was only read, called or pushed to, never given another value by the importer (now: rebind_cases, 11 export kinds x actions x places x import forms, seen by the module itself and by two other importers)",
    "C12-r6-1": "`or` and `get` were always written with parentheses or stood alone (now: precedence_cases, 370 programs next to every binary operator class)",
    "C12-r6-2": "same gap as C12-r6-1",
    "C14-r6-1": "no constant string EXPRESSION was ever indexed with a constant index (now: const_string_cases, 300)",
    "C14-r6-2": "str `+=` / `*=` only ever targeted plain variables (now: str_compound_cases, 125, five target forms)",
    "C15-r6-1": "literals built from an element / field / map read had at least two elements (now: view_literal_cases, 656: seven wrappers incl. `[e]`, `[[e]]`, a one-pair map)",
    "C16-r6-1": "generated programs almost never type-check completely, so code generation behind a `type` alias was never reached (now: alias_index_suspects, 3168 one-statement programs)",
    "C19-r6-1": "the probe library was always named by an absolute path and a missing library was missing everywhere: nothing same-named lay where a well-meaning lookup would find it (now: decoy_scenarios, 29)",
    "C19-r6-2": "same gap as C19-r6-1 (decoy next to the bytecode file, executed from another directory)",
    "C20-r6-1": "the snapshot compared names and contents; a hard link of a read-only file (whose other name changes MODE when the flag is cleared before unlinking) was never in a tree",
    "C20-r6-2": "directory names never contained a backslash (a legal name character) next to a directory spelled with `/`",
    "C20-r3-2": "caught at first run, but only as a model/implementation difference on `..mmm` (a name the property's list leaves open); hidden names with a real extension (`.cache.mmm`) now give the concrete failing tree",
}


def main():
    base = subprocess.run(["git", "-C", "/repo", "rev-parse", "--short", "HEAD"], capture_output=True, text=True).stdout.strip()
    rows = []
    for d in sorted(os.listdir(os.path.join(V, "seeded"))):
        p = os.path.join(V, "seeded", d)
        cr = os.path.join(p, "check_result.json")
        if not os.path.exists(cr):
            continue
        res = json.load(open(cr))
        notes = open(os.path.join(p, "notes.txt")).read().strip() if os.path.exists(os.path.join(p, "notes.txt")) else ""
        mp = os.path.join(p, "meta.json")
        meta = json.load(open(mp)) if os.path.exists(mp) else {}
        caught = sorted(k for k, v in res.items() if not k.startswith("_") and v.get("rc") == 1)
        ran = sorted(k for k in res if not k.startswith("_"))
        meta.setdefault("property", d.split("-")[0])
        meta.setdefault("base_commit_when_checked", base)
        meta.setdefault("needs_to_manifest", notes[:1500])
        meta.setdefault("what_was_run", "tools/run_seeded.py: patch applied in a scratch worktree of /repo HEAD, cargo nextest (193 tests), demo with/without the change, ./verify check <property> --tier quick with MSCRIPT_REPO/VERIF_CACHE")
        meta["breaks"] = meta["property"]
        meta["checks_run"] = ran
        meta["caught_by"] = caught
        meta["tests_with_change"] = res.get("_tests_with_change", "")
        meta["demo_differs"] = res.get("_demo", {}).get("differs")
        if d in FIRST:
            meta["initially_missed_because"] = FIRST[d]
        json.dump(meta, open(mp, "w"), indent=1)
        first = meta.get("initially_missed_because") or "caught at first run"
        change = (meta.get("needs_to_manifest") or notes).replace("\n", " ").replace("|", "/")[:170]
        rows.append("| %s | %s | %s | %s |" % (d, change, ", ".join(caught) if caught else "**not caught**", first))
    print("\n".join(rows))


if __name__ == "__main__":
    main()
