#!/bin/bash
# round 3: /tmp/seedout3/<P>/<k> -> /verif/seeded/<P>-r3-<k>
cd /verif
for P in "$@"; do
  for k in 1 2; do
    src=/tmp/seedout3/$P/$k
    [ -d "$src" ] || continue
    dst=seeded/$P-r3-$k
    mkdir -p $dst && cp -r $src/* $dst/
    echo "=== $P-r3-$k"; python3 tools/run_seeded.py $dst $P 2>&1 | tail -7
  done
done
