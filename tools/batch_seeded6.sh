#!/bin/bash
# round 6: /tmp/seedout6/<P>/<k> -> /verif/seeded/<P>-r6-<k>
cd /verif
for P in "$@"; do
  for k in 1 2; do
    src=/tmp/seedout6/$P/$k
    [ -d "$src" ] || continue
    dst=seeded/$P-r6-$k
    mkdir -p $dst && cp -r $src/* $dst/
    echo "=== $P-r6-$k"; VERIF_SEED=1 python3 tools/run_seeded.py $dst $P 2>&1 | tail -7
  done
done
