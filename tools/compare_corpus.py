#!/usr/bin/env python3
"""compare two mscript binaries on the repository's own corpus (tests + examples): exit class and stdout of `run`
usage: tools/compare_corpus.py <binary A> <binary B>"""
import os, shutil, sys, tempfile
sys.path.insert(0, os.path.dirname(os.path.dirname(os.path.abspath(__file__))))
from vlib import programs

a, b = sys.argv[1], sys.argv[2]
projs = programs.corpus_from_tests() + programs.corpus_from_examples()
base = tempfile.mkdtemp(prefix="cmp-")


def one(p):
    out = []
    for binary in (a, b):
        d = programs.materialize(p, base)
        r = programs.run_bin(binary, ["run", p["entry"], "-q"], d, timeout=10)
        out.append((programs.exit_class(r[0]), programs.canon_out(r[1]) if hasattr(programs, "canon_out") else r[1], r[2][-300:]))
        shutil.rmtree(d, ignore_errors=True)
    return p, out


n = diff = 0
for p, (ra, rb) in programs.pmap(one, projs):
    n += 1
    if ra[0] != rb[0] or (not programs.same_output(ra[1], rb[1], p)):
        if "timeout" in (ra[0], rb[0]):
            continue
        diff += 1
        print("DIFF", p["name"], ra[0], rb[0], "|", rb[2].replace("\n", " ")[-200:])
print("%d programs, %d differ" % (n, diff))
shutil.rmtree(base, ignore_errors=True)
