#!/usr/bin/env python3
"""Run checks against a seeded change WITHOUT touching /repo: the patch is applied in a scratch worktree and the
checks run with MSCRIPT_REPO / VERIF_CACHE pointing there.
usage: tools/run_seeded.py <seeded dir with patch.diff> <property id> [more property ids...]"""
import json, os, subprocess, sys, shutil, time

def main():
    sd = os.path.abspath(sys.argv[1])
    props = sys.argv[2:]
    tag = os.path.basename(sd.rstrip("/")) + "-" + str(os.getpid())
    wt = "/tmp/seedrun-" + tag
    cache = "/tmp/seedcache-" + tag
    subprocess.run(["git", "-C", "/repo", "worktree", "add", "--detach", wt, "HEAD"], check=True, capture_output=True)
    try:
        r = subprocess.run(["git", "-C", wt, "apply", "--recount", "-C1", os.path.join(sd, "patch.diff")], capture_output=True, text=True)
        if r.returncode != 0:
            r = subprocess.run(["git", "-C", wt, "apply", "-3", os.path.join(sd, "patch.diff")], capture_output=True, text=True)
        if r.returncode != 0:
            print("PATCH DOES NOT APPLY:", r.stderr[-500:])
            return 2
        env = dict(os.environ, MSCRIPT_REPO=wt, VERIF_CACHE=cache)
        out = {}
        # confirm the claim: tests still pass, the demonstration behaves differently with the change
        tenv = dict(os.environ, CARGO_TARGET_DIR=os.path.join(cache, "t-target"), CARGO_NET_OFFLINE="true", RUST_BACKTRACE="0")
        r = subprocess.run(["cargo", "nextest", "run", "--workspace", "--no-fail-fast", "--offline"], cwd=wt, env=tenv, capture_output=True, text=True)
        summ = [l for l in (r.stdout + r.stderr).splitlines() if "Summary" in l]
        out["_tests_with_change"] = summ[-1].strip() if summ else "rc=%d" % r.returncode
        print("tests with change:", out["_tests_with_change"])
        demo = os.path.join(sd, "demo.ms")
        if os.path.exists(demo):
            subprocess.run(["cargo", "build", "--offline", "-q"], cwd=wt, env=tenv, capture_output=True)
            res = {}
            for label, binary in (("with_change", os.path.join(cache, "t-target", "debug", "mscript")), ("without_change", None)):
                if binary is None:
                    sys.path.insert(0, "/verif")
                    from vlib import core
                    binary = core.build_repo()
                d = "/tmp/seeddemo-" + tag + "-" + label
                os.makedirs(d, exist_ok=True)
                shutil.copy(demo, os.path.join(d, "demo.ms"))
                for extra in os.listdir(sd):
                    if extra.endswith(".ms") and extra != "demo.ms":
                        shutil.copy(os.path.join(sd, extra), d)
                try:
                    rr = subprocess.run([binary, "run", "demo.ms", "-q"], cwd=d, capture_output=True, text=True, timeout=60, env=tenv)
                    res[label] = {"rc": rr.returncode, "stdout": rr.stdout[-600:], "stderr_tail": rr.stderr[-300:]}
                except subprocess.TimeoutExpired:
                    res[label] = {"rc": 124, "stdout": "", "stderr_tail": "timeout after 60 s"}
                shutil.rmtree(d, ignore_errors=True)
            res["differs"] = (res["with_change"]["rc"], res["with_change"]["stdout"]) != (res["without_change"]["rc"], res["without_change"]["stdout"])
            out["_demo"] = res
            print("demo differs:", res["differs"])
        demo_sh = os.path.join(sd, "demo.sh")
        if os.path.exists(demo_sh):
            # a shell demonstration: `sh demo.sh <mscript binary>` or `sh demo.sh <repo checkout> <mscript binary>`
            subprocess.run(["cargo", "build", "--offline", "-q"], cwd=wt, env=tenv, capture_output=True)
            two = "$2" in open(demo_sh).read() or "${2" in open(demo_sh).read()
            res = {}
            for label, binary, tree in (("with_change", os.path.join(cache, "t-target", "debug", "mscript"), wt), ("without_change", None, "/repo")):
                if binary is None:
                    sys.path.insert(0, "/verif")
                    from vlib import core
                    binary = core.build_repo()
                d = "/tmp/seeddemo-" + tag + "-sh-" + label
                shutil.copytree(sd, d, ignore=shutil.ignore_patterns("check_result.json", "meta.json"))
                try:
                    rr = subprocess.run(["sh", "demo.sh"] + ([tree, binary] if two else [binary]), cwd=d, capture_output=True, text=True, timeout=900,
                                        env=dict(tenv, CARGO_TARGET_DIR=os.path.join(cache, "demo-target-" + label)))
                    res[label] = {"rc": rr.returncode, "stdout": rr.stdout[-1500:], "stderr_tail": rr.stderr[-300:]}
                except subprocess.TimeoutExpired:
                    res[label] = {"rc": 124, "stdout": "", "stderr_tail": "timeout"}
                shutil.rmtree(d, ignore_errors=True)
            def norm(x):
                return (x["rc"], x["stdout"].replace(os.path.join(cache, "t-target", "debug", "mscript"), "MSCRIPT").replace(wt, "TREE"))
            res["differs"] = norm(res["with_change"])[0] != res["without_change"]["rc"] or \
                res["with_change"]["stdout"].replace(wt, "TREE").replace(cache, "CACHE") != res["without_change"]["stdout"].replace("/repo", "TREE").replace("/verif/.cache", "CACHE")
            out["_demo_sh"] = res
            print("demo.sh differs:", res["differs"])
        for p in props:
            t = time.time()
            r = subprocess.run(["./verify", "check", p, "--tier", "quick"], cwd="/verif", env=env, capture_output=True, text=True)
            lines = [l for l in r.stdout.splitlines() if l.startswith(("VIOLATION", "KNOWN-FINDING", "OK ", "FAIL "))]
            out[p] = {"rc": r.returncode, "wall_s": round(time.time() - t, 1), "lines": lines[:12],
                      "first_detail": next((l for l in r.stdout.splitlines() if l.startswith("  ")), "")[:400]}
            print(p, "rc=%d" % r.returncode, "%.0fs" % (time.time() - t))
            for l in lines[:6]:
                print("   ", l[:300])
        if os.environ.get("SEEDED_NO_WRITE"):
            return 0
        crp = os.path.join(sd, "check_result.json")
        if os.path.exists(crp):      # keep the results of checks not re-run this time
            old = json.load(open(crp))
            for k, v in old.items():
                out.setdefault(k, v)
        json.dump(out, open(crp, "w"), indent=1)
        return 0
    finally:
        subprocess.run(["git", "-C", "/repo", "worktree", "remove", "--force", wt], capture_output=True)
        shutil.rmtree(cache, ignore_errors=True)
        # evidence files were overwritten by the seeded run: restore the committed ones
        subprocess.run(["git", "-C", "/verif", "checkout", "--", "evidence"], capture_output=True)

if __name__ == "__main__":
    sys.exit(main())
