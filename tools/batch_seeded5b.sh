#!/bin/bash
# re-run the given seeded ids (already under /verif/seeded) with VERIF_SEED=1
cd /verif
for id in "$@"; do
  P=${id%%-*}
  echo "=== $id"; VERIF_SEED=1 python3 tools/run_seeded.py seeded/$id $P 2>&1 | tail -7
done
