#!/bin/bash
# round 4: /tmp/seedout4/<P>/<k> -> /verif/seeded/<P>-r4-<k>
cd /verif
for P in "$@"; do
  for k in 1 2; do
    src=/tmp/seedout4/$P/$k
    [ -d "$src" ] || continue
    dst=seeded/$P-r4-$k
    mkdir -p $dst && cp -r $src/* $dst/
    echo "=== $P-r4-$k"; python3 tools/run_seeded.py $dst $P 2>&1 | tail -7
  done
done
