#!/usr/bin/env python3
"""regenerate DESIGN.md section 7A (findings as recorded) from known_findings.json"""
import json, os, re
V = os.path.dirname(os.path.dirname(os.path.abspath(__file__)))
k = json.load(open(os.path.join(V, "known_findings.json")))["findings"]
fixed = [e for e in k if e["status"] == "fixed"]
known = [e for e in k if e["status"] == "known"]


def cell(s, n=260):
    return s.replace("\n", " ").replace("|", "/")[:n]


out = ["### 7A. Findings as recorded (generated from known_findings.json by tools/findings_table.py)", "",
       "**Fixed** (%d entries in %d separate unguarded `fix:` commits in /repo; the 193 tests pass unedited after every one):" % (len(fixed), len(set(e.get("commit") for e in fixed))), "",
       "| property | commit | class | what failed |", "|---|---|---|---|"]
for e in fixed:
    what = re.sub(r"^fixed: property=C\d+ \w+ ", "", e["what"])
    out.append("| %s | %s | `%s` | %s |" % (e["property"], e.get("commit", ""), e["class"], cell(what)))
out += ["", "**Known** (%d entries; printed as KNOWN-FINDING lines, exit 0; why they are not repaired is in the last column):" % len(known), "",
        "| property | class | what fails | why recorded, not repaired |", "|---|---|---|---|"]
for e in known:
    out.append("| %s | `%s` | %s | %s |" % (e["property"], e["class"], cell(e["what"], 330), cell(e.get("why_not_fixed", e.get("why", "")), 300)))
p = os.path.join(V, "DESIGN.md")
s = open(p).read()
a = s.index("### 7A. Findings as recorded")
b = s.index("\n---", a)
open(p, "w").write(s[:a] + "\n".join(out) + "\n" + s[b:])
print(len(fixed), "fixed;", len(known), "known")
