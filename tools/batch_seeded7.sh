#!/bin/bash
# round 7: /tmp/seedout7/<P>/<k> -> /verif/seeded/<P>-r7-<k>
cd /verif
for P in "$@"; do
  for k in 1; do
    src=/tmp/seedout7/$P/$k
    [ -d "$src" ] || continue
    dst=seeded/$P-r7-$k
    mkdir -p $dst && cp -r $src/* $dst/
    echo "=== $P-r7-$k"; VERIF_SEED=1 python3 tools/run_seeded.py $dst $P 2>&1 | tail -7
  done
done
